#!/bin/bash
# Line coverage of /repo/src achieved by the quick tier of every check (diagnostic only; needs the
# nightly toolchain's llvm-tools).  Output: /verif/target/cov/report.txt
set -u
BIN=$HOME/.rustup/toolchains/nightly-x86_64-unknown-linux-gnu/lib/rustlib/x86_64-unknown-linux-gnu/bin
COV=/verif/target/cov; rm -rf $COV/prof; mkdir -p $COV/prof
cd /verif/harness
python3 - <<'PY'
import importlib.machinery, importlib.util
l=importlib.machinery.SourceFileLoader('chk','/verif/check'); spec=importlib.util.spec_from_loader('chk',l); m=importlib.util.module_from_spec(spec); l.exec_module(m); m.gen_shadow_manifest()
PY
export CARGO_NET_OFFLINE=true
RUSTFLAGS="-C instrument-coverage" cargo +nightly build -q -p vreal --target-dir $COV/real || exit 1
RUSTFLAGS="-C instrument-coverage --cfg tiny_http_verif" cargo +nightly build -q -p vhook --target-dir $COV/hook || exit 1
RUSTFLAGS="-C instrument-coverage --cfg tiny_http_verif" cargo +nightly build -q -p vsched --target-dir $COV/sched || exit 1
scale=${1:-0.05}
cd /verif
for p in C01 C02 C03 C04 C05 C06 C07 C08 C09 C10 C11 C12 C13 C14 C15 C16 C17 C18 C19 C20; do
  for b in real:vreal hook:vhook sched:vsched; do
    d=${b%%:*}; n=${b##*:}
    LLVM_PROFILE_FILE="$COV/prof/$p-$n-%p-%m.profraw" VERIF_ROOT=/verif timeout 300 $COV/$d/debug/$n $p --scale $scale --workers 3 --out $COV/rep.json >/dev/null 2>&1
  done
done
$BIN/llvm-profdata merge -sparse $COV/prof/*.profraw -o $COV/all.profdata
$BIN/llvm-cov report --instr-profile=$COV/all.profdata --object $COV/real/debug/vreal --object $COV/hook/debug/vhook --object $COV/sched/debug/vsched --sources /repo/src > $COV/report.txt 2>/dev/null
$BIN/llvm-cov show --instr-profile=$COV/all.profdata --object $COV/real/debug/vreal --object $COV/hook/debug/vhook --object $COV/sched/debug/vsched --sources /repo/src --show-line-counts-or-regions=false > $COV/show.txt 2>/dev/null
cat $COV/report.txt
