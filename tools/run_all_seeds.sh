#!/bin/bash
# Re-runs every stored seeded change against the quick tier (4 private slots in parallel) and writes
# /verif/seeded/RESULTS.txt: one line per seed with the outcome of `./check <property>`.
cd /verif
ls seeded | grep -E "^C[0-9]{2}[a-z]?$" > /tmp/seed_list.txt
rm -f /tmp/seed_results.*.txt
for s in 1 2 3 4; do
  ( awk -v s=$s 'NR%4==s%4' /tmp/seed_list.txt | while read id; do
      prop=${id:0:3}
      out=$(tools/slot.sh $s /verif/seeded/$id/patch.diff $prop 2>&1)
      code=$(echo "$out" | grep -oE "exit=[0-9]+" | head -1)
      sig=$(echo "$out" | grep -E "^\[check\] $prop:" | head -1 | cut -c1-120)
      if echo "$out" | grep -q "patch does not apply"; then code="PATCH-DOES-NOT-APPLY"; fi
      echo "$id $code $sig" >> /tmp/seed_results.$s.txt
    done ) &
done
wait
cat /tmp/seed_results.*.txt | sort > seeded/RESULTS.txt
cat seeded/RESULTS.txt
