#!/bin/bash
# usage: slot.sh <N> <patch.diff> <CHECK-ID>...
# Runs checks against a private worktree of /repo (/tmp/slot<N>/repo) with the patch applied, using a
# private target dir, so that several sensitivity experiments can run at once and /repo stays untouched.
set -u
n="$1"; patch="$2"; shift 2
base=/tmp/slot$n; wt=$base/repo
mkdir -p $base/out
if [ ! -d $wt ]; then git -C /repo worktree add -q --detach $wt HEAD || exit 3; fi
git -C $wt checkout -q --detach "$(git -C /repo rev-parse HEAD)" && git -C $wt checkout -q -- . && git -C $wt clean -qfd
if [ "$patch" != "-" ]; then git -C $wt apply "$patch" || { echo "patch does not apply"; exit 3; }; fi
# private copy of the harness sources: the generated manifests point at this slot's worktree
rsync -a --delete --exclude target --exclude artifacts --exclude corpus /verif/harness/ $base/harness/
for id in "$@"; do
  out=$(cd /verif && VERIF_REPO=$wt VERIF_HARNESS=$base/harness VERIF_TARGET=$base/target VERIF_OUT_DIR=$base/out ./check "$id" ${SLOT_ARGS:-} 2>$base/err.txt); code=$?
  echo "== $id exit=$code"; echo "$out" | grep -E "VIOLATION|KNOWN|OK |INCONCLUSIVE" | head -5
  grep -E "^\[check\] $id:" -A1 $base/err.txt | head -6 | cut -c1-300
done
git -C $wt checkout -q -- . && git -C $wt clean -qfd
