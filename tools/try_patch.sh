#!/bin/bash
# usage: try_patch.sh <patch.diff> <CHECK-ID>...   applies the patch to /repo, runs the checks, always reverts
set -u
patch="$1"; shift
cd /repo || exit 3
if ! git diff --quiet; then echo "/repo has uncommitted changes"; exit 3; fi
if ! git apply "$patch"; then echo "patch does not apply"; exit 3; fi
for id in "$@"; do
  out=$(cd /verif && ./check "$id" 2>/tmp/try_patch.err); code=$?
  echo "== $id exit=$code"; echo "$out" | grep -E "VIOLATION|KNOWN|OK |INCONCLUSIVE" | head -5
  grep -E "^\[check\] $id:" -A1 /tmp/try_patch.err | head -6 | cut -c1-300
done
git -C /repo checkout -- . 
