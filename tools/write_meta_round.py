import json,os,re
needs={
'C01':">= 3 requests on one connection, request 3 parsed after response 1 was completed while response 2 is still pending, and request 3 answered before request 2",
'C02':"a header value with an inner horizontal tab",
'C03':"a chunked request whose Transfer-Encoding value is not spelled in lower case",
'C04':"Response::new called directly with a header vector that contains Content-Length or a forbidden header",
'C05':"Request::upgrade / raw_print with an upgrade protocol and a status that is not 1xx",
'C06':"the earlier request's writer flushed before its last byte (Expect + as_reader, or into_writer write+flush+write) and the later request answered on another thread inside that window",
'C07':">= 2 receivers blocked at once, one leaves its wait, and only later another request arrives while the other receiver is still blocked (a single 'somebody sleeps' flag)",
'C08':"a TCP client that resets between the kernel's handshake and the server's accept (peer_addr fails with ENOTCONN, the accept thread ends)",
'C09':"a chunked request whose Transfer-Encoding value has an upper-case letter, followed by another request on the connection",
'C10':"a version token with leading zeros or a plus sign (HTTP/01.1, HTTP/+1.1)",
'C11':"a streamed body read to EOF only through Read::read_vectored, request left unanswered while waiting for the successor",
'C12':"the Connection header repeated on two lines with the closing option not on the last line",
'C13':"an empty line between two requests with a read boundary exactly at it (the parser peeks at what is already buffered)",
'C14':"a Content-Length body with more than 1024 bytes unread when the request is answered or dropped",
'C15':"a response larger than the socket buffers to a client that reads nothing for more than 5 s and then vanishes (write timeout: respond returns WouldBlock)",
'C16':"a Content-Length list whose members are all the same number ('5, 5')",
'C17':"unblock() while a receiver is parked, the woken receiver getting the mutex before the unblocking thread",
'C18':"two requests on one connection, the first with Expect whose body is read: the flush of the 100 releases the next request's writer",
'C19':"Content-Type already set, then .boxed(), then Content-Type supplied again through add_header/with_header",
'C20':"a UNIX-socket server dropped: socket file removed before the wake-up connect, accept thread and workers stay for ever",
}
hist={k:"caught as the checks stood" for k in needs}
hist['C08']="missed; caught by the new real-resets-then-service part (connections reset before they are accepted, then ordinary ones that must all be served)"
hist['C15']="missed (no client stalled for longer than an instant); caught by the new real-stalled-client part (8-31 MiB response, client reads nothing for 11 s or more, then goes)"
hist['C18']="missed (Expect requests were only handled one at a time); caught by the new sched-conn part (Expect requests among concurrent handler tasks, lingering handlers)"
hist['C20']="missed (threads were only counted before the drop); caught after the real-time scenarios count threads again once the server and its last client are gone"
res={}
for l in open('/tmp/batch_results.txt'):
    p=l.split(None,2)
    sig=''
    if len(p)>2:
        m=re.search(r'\[check\] C\d\d: (\S+)',p[2]); sig=m.group(1) if m else ''
    res[p[0]]=(p[1],sig)
for k in needs:
    sid=k+'i'
    code,sig=res.get(sid,('?',''))
    meta={"property":k,"round":9,
     "origin":"fresh sub-agent given only the property text, its own scratch worktree and one sentence each about the conditions the eight earlier seeders had used, asked for a different mechanism; nothing from /verif",
     "needs_to_manifest":needs[k],
     "confirmed_by":"tools/confirm_seed.sh (existing suite passes with the change at /repo HEAD; seeded_demo.rs fails with it and passes without it; see confirm.log)",
     "ran_against_checks":"tools/slot.sh <n> patch.diff "+k,
     "history":hist[k],"caught_as":sig}
    assert code=='exit=1', (sid,code)
    json.dump(meta,open(f'/verif/seeded/{sid}/meta.json','w'),indent=1)
print('ok')
