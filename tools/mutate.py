#!/usr/bin/env python3
"""Sensitivity helper: apply one textual mutation to /repo, run a command, always revert.
usage: mutate.py <file-relative-to-/repo> <old> <new> -- <command...>"""
import subprocess, sys
i = sys.argv.index("--")
path, old, new = sys.argv[1:4]
cmd = sys.argv[i + 1:]
full = "/repo/" + path
s = open(full).read()
if s.count(old) != 1:
    print("MUTATION DOES NOT APPLY (count=%d)" % s.count(old)); sys.exit(3)
open(full, "w").write(s.replace(old, new))
try:
    r = subprocess.run(cmd)
    print("exit code:", r.returncode)
finally:
    subprocess.run(["git", "-C", "/repo", "checkout", "--", path])
