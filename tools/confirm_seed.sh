#!/bin/bash
# usage: confirm_seed.sh <ID> [suffix]  -- re-verifies a sub-agent's seeded change in its scratch worktree
# and, if confirmed, stores it under /verif/seeded/<ID><suffix>/ and removes the worktree.
id="$1"; sfx="${2:-}"; wt=/tmp/wt-$id$sfx; src=/tmp/seeded/$id$sfx; dst=/verif/seeded/$id$sfx
log=/tmp/seeded/$id$sfx/confirm.log
cd $wt || exit 3
export CARGO_NET_OFFLINE=true
# the stash is shared between worktrees: never use it; patch.diff is the source of truth
git checkout -q -- src && git checkout -q --detach $(git -C /repo rev-parse HEAD) && git apply $src/patch.diff || { echo "patch.diff does not apply to HEAD"; exit 3; }
cp $src/seeded_demo.rs tests/seeded_demo.rs
{
echo "== existing suite with the change"
mv tests/seeded_demo.rs /tmp/seeded/$id$sfx/.demo_aside.rs
cargo test --offline --no-fail-fast 2>&1 | grep -E "^test result|FAILED|failed"
ex=$(cargo test --offline --no-fail-fast 2>&1 | grep -E "^test result: FAILED|^error: test failed" | wc -l)
mv /tmp/seeded/$id$sfx/.demo_aside.rs tests/seeded_demo.rs
echo "existing tests failing with the change: $ex"
echo "== demo with the change (must fail)"
cargo test --offline --test seeded_demo 2>&1 | grep -E "^test result|^test .*(ok|FAILED)" ; cargo test --offline --test seeded_demo >/dev/null 2>&1; with=$?
echo "demo exit with change: $with"
git checkout -q -- src
echo "== demo without the change (must pass)"
cargo test --offline --test seeded_demo 2>&1 | grep -E "^test result|^test .*(ok|FAILED)"; cargo test --offline --test seeded_demo >/dev/null 2>&1; without=$?
echo "demo exit without change: $without"
git apply $src/patch.diff
echo "SUMMARY id=$id existing_failing=$ex demo_with=$with demo_without=$without"
} > $log 2>&1
if [ "$ex" = "0" ] && [ "$with" != "0" ] && [ "$without" = "0" ]; then
  mkdir -p $dst; cp $src/patch.diff $dst/patch.diff; cp $src/seeded_demo.rs $dst/seeded_demo.rs; cp $src/notes.md $dst/notes.md; cp $log $dst/confirm.log
  echo "CONFIRMED $id$sfx"
else
  echo "NOT CONFIRMED $id$sfx (see $log)"
fi
cd /; git -C /repo worktree remove --force $wt
