//! shuttle-backed runtime with virtual time.

use std::cell::RefCell;
use std::collections::HashMap;
use std::sync::atomic::{AtomicU8, Ordering as StdOrdering};
use std::sync::Arc as StdArc;
use std::sync::Mutex as StdMutex;

const WAITING: u8 = 0;
const NOTIFIED: u8 = 1;
const TIMEDOUT: u8 = 2;

struct Waiter {
    id: u64,
    thread: shuttle::thread::Thread,
    state: AtomicU8,
}

type WaitList = StdArc<StdMutex<Vec<StdArc<Waiter>>>>;

struct Timer {
    deadline_ns: u64,
    seq: u64,
    waiter: StdArc<Waiter>,
    list: WaitList,
}

#[derive(Default)]
pub struct Counters {
    pub condvar_waits: u64,
    pub timed_waits: u64,
    pub timeouts_fired: u64,
    pub notifies: u64,
    pub lib_threads_spawned: u64,
    pub max_live_lib_threads: u64,
}

#[derive(Default)]
struct RtState {
    now_ns: u64,
    next_id: u64,
    timers: Vec<Timer>,
    clock: Option<shuttle::thread::Thread>,
    shutdown: bool,
    live_lib_threads: u64,
    counters: Counters,
    waits_by_task: HashMap<usize, u64>,
}

thread_local! {
    static RT: RefCell<RtState> = RefCell::new(RtState::default());
}

fn task_key() -> usize {
    // TaskId is not constructible here; its Debug form is stable within an execution
    let id = shuttle::current::me();
    let s = format!("{:?}", id);
    let digits: String = s.chars().filter(|c| c.is_ascii_digit()).collect();
    digits.parse().unwrap_or(0)
}

fn poke_clock() {
    let t = RT.with(|rt| rt.borrow().clock.clone());
    if let Some(t) = t {
        t.unpark();
    }
}

pub mod probe {
    use super::*;
    pub fn condvar_waits_of_current_task() -> u64 {
        let k = task_key();
        RT.with(|rt| rt.borrow().waits_by_task.get(&k).copied().unwrap_or(0))
    }
    pub fn rand_u64() -> u64 {
        use shuttle::rand::Rng;
        shuttle::rand::thread_rng().gen::<u64>()
    }
    pub fn counters<R>(f: impl FnOnce(&Counters) -> R) -> R {
        RT.with(|rt| f(&rt.borrow().counters))
    }
    pub fn live_lib_threads() -> u64 {
        RT.with(|rt| rt.borrow().live_lib_threads)
    }
    pub fn now_ns() -> u64 {
        RT.with(|rt| rt.borrow().now_ns)
    }
    pub fn pending_timers() -> usize {
        RT.with(|rt| rt.borrow().timers.iter().filter(|t| t.waiter.state.load(StdOrdering::SeqCst) == WAITING).count())
    }
}

/// Handle of the virtual clock task of one execution.
pub struct ClockHandle {
    join: Option<shuttle::thread::JoinHandle<()>>,
}

/// Must be the first thing the root task of an execution does.
pub fn begin_execution() -> ClockHandle {
    RT.with(|rt| *rt.borrow_mut() = RtState::default());
    let join = shuttle::thread::Builder::new()
        .name("verif-clock".to_string())
        .spawn(clock_main)
        .expect("spawn clock");
    RT.with(|rt| rt.borrow_mut().clock = Some(join.thread().clone()));
    ClockHandle { join: Some(join) }
}

impl ClockHandle {
    /// Ends the clock once every library thread has finished (it keeps firing timers until then,
    /// which is what lets idle pool workers time out).
    pub fn finish(mut self) {
        RT.with(|rt| rt.borrow_mut().shutdown = true);
        poke_clock();
        if let Some(j) = self.join.take() {
            let _ = j.join();
        }
    }
}

fn clock_main() {
    loop {
        // earliest pending timer
        let fired = RT.with(|rt| {
            let mut rt = rt.borrow_mut();
            rt.timers.retain(|t| t.waiter.state.load(StdOrdering::SeqCst) == WAITING);
            if rt.timers.is_empty() {
                return None;
            }
            let mut best = 0;
            for (i, t) in rt.timers.iter().enumerate() {
                let b = &rt.timers[best];
                if (t.deadline_ns, t.seq) < (b.deadline_ns, b.seq) {
                    best = i;
                }
            }
            let t = rt.timers.swap_remove(best);
            if t.deadline_ns > rt.now_ns {
                rt.now_ns = t.deadline_ns;
            }
            rt.counters.timeouts_fired += 1;
            Some(t)
        });
        match fired {
            Some(t) => {
                // never hold the (OS-level) list lock across a scheduling point
                let found = {
                    let mut list = t.list.lock().unwrap();
                    match list.iter().position(|w| w.id == t.waiter.id) {
                        Some(pos) => {
                            list.remove(pos);
                            true
                        }
                        None => false,
                    }
                };
                if found {
                    t.waiter.state.store(TIMEDOUT, StdOrdering::SeqCst);
                    t.waiter.thread.unpark();
                }
                // one firing per scheduling decision
                shuttle::thread::yield_now();
            }
            None => {
                let done = RT.with(|rt| {
                    let rt = rt.borrow();
                    rt.shutdown && rt.live_lib_threads == 0
                });
                if done {
                    return;
                }
                shuttle::thread::park();
            }
        }
    }
}

pub mod time {
    pub use std::time::Duration;
    use std::ops::{Add, Sub};

    /// virtual instant
    #[derive(Clone, Copy, Debug, PartialEq, Eq, PartialOrd, Ord)]
    pub struct Instant(u64);

    impl Instant {
        pub fn now() -> Instant {
            Instant(super::probe::now_ns())
        }
        pub fn elapsed(&self) -> Duration {
            Duration::from_nanos(super::probe::now_ns().saturating_sub(self.0))
        }
        pub fn duration_since(&self, earlier: Instant) -> Duration {
            Duration::from_nanos(self.0.saturating_sub(earlier.0))
        }
        pub fn saturating_duration_since(&self, earlier: Instant) -> Duration {
            Duration::from_nanos(self.0.saturating_sub(earlier.0))
        }
        pub fn checked_duration_since(&self, earlier: Instant) -> Option<Duration> {
            self.0.checked_sub(earlier.0).map(Duration::from_nanos)
        }
        /// as with std's Instant (seconds kept in an i64): None when the sum cannot be represented
        pub fn checked_add(&self, d: Duration) -> Option<Instant> {
            if d.as_secs() > i64::MAX as u64 - (self.0 / 1_000_000_000) - 1 {
                return None;
            }
            // representable for std; the virtual clock itself counts nanoseconds in a u64
            Some(Instant(self.0.saturating_add(d.as_nanos().min(u64::MAX as u128) as u64)))
        }
        pub fn checked_sub(&self, d: Duration) -> Option<Instant> {
            let n = d.as_nanos();
            if n > self.0 as u128 {
                None
            } else {
                Some(Instant(self.0 - n as u64))
            }
        }
    }
    impl Add<Duration> for Instant {
        type Output = Instant;
        /// panics where std's does
        fn add(self, d: Duration) -> Instant {
            self.checked_add(d).expect("overflow when adding duration to instant")
        }
    }
    impl Sub<Duration> for Instant {
        type Output = Instant;
        fn sub(self, d: Duration) -> Instant {
            self.checked_sub(d).expect("overflow when subtracting duration from instant")
        }
    }
    impl Sub<Instant> for Instant {
        type Output = Duration;
        fn sub(self, o: Instant) -> Duration {
            Duration::from_nanos(self.0.saturating_sub(o.0))
        }
    }
}

pub mod thread {
    pub use shuttle::thread::{current, park, yield_now, JoinHandle, Thread};

    /// library threads are counted so that the clock knows when it may stop
    pub fn spawn<F, T>(f: F) -> JoinHandle<T>
    where
        F: FnOnce() -> T + Send + 'static,
        T: Send + 'static,
    {
        super::RT.with(|rt| {
            let mut rt = rt.borrow_mut();
            rt.live_lib_threads += 1;
            rt.counters.lib_threads_spawned += 1;
            if rt.live_lib_threads > rt.counters.max_live_lib_threads {
                rt.counters.max_live_lib_threads = rt.live_lib_threads;
            }
        });
        shuttle::thread::spawn(move || {
            struct Exit;
            impl Drop for Exit {
                fn drop(&mut self) {
                    super::RT.with(|rt| rt.borrow_mut().live_lib_threads -= 1);
                    super::poke_clock();
                }
            }
            let _exit = Exit;
            f()
        })
    }

    pub use shuttle::thread::{Result, ThreadId};
    pub use std::thread::{available_parallelism, panicking};

    /// `std::thread::Builder` (the name is kept; a stack size means nothing here)
    #[derive(Debug, Default)]
    pub struct Builder {
        name: Option<String>,
    }

    impl Builder {
        pub fn new() -> Builder {
            Builder { name: None }
        }
        pub fn name(mut self, name: String) -> Builder {
            self.name = Some(name);
            self
        }
        pub fn stack_size(self, _size: usize) -> Builder {
            self
        }
        pub fn spawn<F, T>(self, f: F) -> std::io::Result<JoinHandle<T>>
        where
            F: FnOnce() -> T + Send + 'static,
            T: Send + 'static,
        {
            Ok(spawn(f))
        }
    }

    /// a park with a timeout: a timed wait on the virtual clock that an `unpark` does not cut
    /// short (spurious returns are allowed by the contract; an early one never happens here)
    pub fn park_timeout(d: std::time::Duration) {
        sleep(d)
    }

    pub fn sleep(d: std::time::Duration) {
        // virtual sleep: a timed wait nobody notifies
        let m = super::sync::Mutex::new(());
        let cv = super::sync::Condvar::new();
        let g = m.lock().unwrap();
        let _ = cv.wait_timeout(g, d);
    }
}

pub mod sync {
    use super::*;
    pub use shuttle::sync::{Barrier, BarrierWaitResult, Once, RwLock, RwLockReadGuard, RwLockWriteGuard};
    pub use std::sync::{Arc, LockResult, OnceLock, PoisonError, TryLockError, TryLockResult, Weak};
    pub mod atomic {
        pub use shuttle::sync::atomic::*;
    }
    /// Channels with std's interface on top of this module's mutex and condition variable, so
    /// that `recv_timeout` runs on the virtual clock (shuttle's own channel ignores the timeout)
    /// and a blocked receiver is seen by the deadlock detector like any other waiter.
    pub mod mpsc {
        pub use std::sync::mpsc::{RecvError, RecvTimeoutError, SendError, TryRecvError};
        use std::collections::VecDeque;
        use std::sync::Arc;

        struct Chan<T> {
            st: super::Mutex<ChanSt<T>>,
            cv: super::Condvar,
            /// bounded channels: senders wait here while the buffer is full
            room: super::Condvar,
        }
        struct ChanSt<T> {
            q: VecDeque<T>,
            senders: usize,
            receiver_alive: bool,
            bound: Option<usize>,
        }

        pub struct Sender<T> {
            ch: Arc<Chan<T>>,
        }
        pub struct SyncSender<T> {
            ch: Arc<Chan<T>>,
        }
        pub struct Receiver<T> {
            ch: Arc<Chan<T>>,
        }

        fn make<T>(bound: Option<usize>) -> Arc<Chan<T>> {
            Arc::new(Chan { st: super::Mutex::new(ChanSt { q: VecDeque::new(), senders: 1, receiver_alive: true, bound }), cv: super::Condvar::new(), room: super::Condvar::new() })
        }

        pub fn channel<T>() -> (Sender<T>, Receiver<T>) {
            let ch = make(None);
            (Sender { ch: ch.clone() }, Receiver { ch })
        }

        pub fn sync_channel<T>(bound: usize) -> (SyncSender<T>, Receiver<T>) {
            // (a rendezvous channel is approximated by a buffer of one)
            let ch = make(Some(bound.max(1)));
            (SyncSender { ch: ch.clone() }, Receiver { ch })
        }

        fn lock<T>(ch: &Chan<T>) -> super::MutexGuard<'_, ChanSt<T>> {
            ch.st.lock().unwrap_or_else(|e| e.into_inner())
        }

        fn send_impl<T>(ch: &Chan<T>, t: T) -> Result<(), SendError<T>> {
            let mut st = lock(ch);
            loop {
                if !st.receiver_alive {
                    return Err(SendError(t));
                }
                match st.bound {
                    Some(b) if st.q.len() >= b => st = ch.room.wait(st).unwrap_or_else(|e| e.into_inner()),
                    _ => break,
                }
            }
            st.q.push_back(t);
            drop(st);
            ch.cv.notify_one();
            Ok(())
        }

        fn sender_gone<T>(ch: &Chan<T>) {
            let mut st = lock(ch);
            st.senders -= 1;
            let last = st.senders == 0;
            drop(st);
            if last {
                ch.cv.notify_all();
            }
        }

        impl<T> Sender<T> {
            pub fn send(&self, t: T) -> Result<(), SendError<T>> {
                send_impl(&self.ch, t)
            }
        }
        impl<T> SyncSender<T> {
            pub fn send(&self, t: T) -> Result<(), SendError<T>> {
                send_impl(&self.ch, t)
            }
            pub fn try_send(&self, t: T) -> Result<(), std::sync::mpsc::TrySendError<T>> {
                let mut st = lock(&self.ch);
                if !st.receiver_alive {
                    return Err(std::sync::mpsc::TrySendError::Disconnected(t));
                }
                if let Some(b) = st.bound {
                    if st.q.len() >= b {
                        return Err(std::sync::mpsc::TrySendError::Full(t));
                    }
                }
                st.q.push_back(t);
                drop(st);
                self.ch.cv.notify_one();
                Ok(())
            }
        }
        impl<T> Clone for Sender<T> {
            fn clone(&self) -> Self {
                lock(&self.ch).senders += 1;
                Sender { ch: self.ch.clone() }
            }
        }
        impl<T> Clone for SyncSender<T> {
            fn clone(&self) -> Self {
                lock(&self.ch).senders += 1;
                SyncSender { ch: self.ch.clone() }
            }
        }
        impl<T> Drop for Sender<T> {
            fn drop(&mut self) {
                sender_gone(&self.ch);
            }
        }
        impl<T> Drop for SyncSender<T> {
            fn drop(&mut self) {
                sender_gone(&self.ch);
            }
        }
        impl<T> Drop for Receiver<T> {
            fn drop(&mut self) {
                let mut st = lock(&self.ch);
                st.receiver_alive = false;
                let left: VecDeque<T> = std::mem::take(&mut st.q);
                drop(st);
                self.ch.room.notify_all();
                drop(left);
            }
        }
        impl<T> std::fmt::Debug for Sender<T> {
            fn fmt(&self, f: &mut std::fmt::Formatter<'_>) -> std::fmt::Result {
                f.write_str("Sender { .. }")
            }
        }
        impl<T> std::fmt::Debug for SyncSender<T> {
            fn fmt(&self, f: &mut std::fmt::Formatter<'_>) -> std::fmt::Result {
                f.write_str("SyncSender { .. }")
            }
        }
        impl<T> std::fmt::Debug for Receiver<T> {
            fn fmt(&self, f: &mut std::fmt::Formatter<'_>) -> std::fmt::Result {
                f.write_str("Receiver { .. }")
            }
        }

        impl<T> Receiver<T> {
            fn took(&self) {
                self.ch.room.notify_one();
            }
            pub fn recv(&self) -> Result<T, RecvError> {
                let mut st = lock(&self.ch);
                loop {
                    if let Some(t) = st.q.pop_front() {
                        drop(st);
                        self.took();
                        return Ok(t);
                    }
                    if st.senders == 0 {
                        return Err(RecvError);
                    }
                    st = self.ch.cv.wait(st).unwrap_or_else(|e| e.into_inner());
                }
            }
            pub fn try_recv(&self) -> Result<T, TryRecvError> {
                let mut st = lock(&self.ch);
                if let Some(t) = st.q.pop_front() {
                    drop(st);
                    self.took();
                    return Ok(t);
                }
                if st.senders == 0 {
                    Err(TryRecvError::Disconnected)
                } else {
                    Err(TryRecvError::Empty)
                }
            }
            pub fn recv_timeout(&self, timeout: std::time::Duration) -> Result<T, RecvTimeoutError> {
                let start = super::super::time::Instant::now();
                let mut st = lock(&self.ch);
                loop {
                    if let Some(t) = st.q.pop_front() {
                        drop(st);
                        self.took();
                        return Ok(t);
                    }
                    if st.senders == 0 {
                        return Err(RecvTimeoutError::Disconnected);
                    }
                    let spent = start.elapsed();
                    if spent >= timeout {
                        return Err(RecvTimeoutError::Timeout);
                    }
                    let (g, _) = self.ch.cv.wait_timeout(st, timeout - spent).unwrap_or_else(|e| e.into_inner());
                    st = g;
                }
            }
            pub fn iter(&self) -> Iter<'_, T> {
                Iter { rx: self }
            }
            pub fn try_iter(&self) -> TryIter<'_, T> {
                TryIter { rx: self }
            }
        }
        pub struct Iter<'a, T> {
            rx: &'a Receiver<T>,
        }
        impl<'a, T> Iterator for Iter<'a, T> {
            type Item = T;
            fn next(&mut self) -> Option<T> {
                self.rx.recv().ok()
            }
        }
        pub struct TryIter<'a, T> {
            rx: &'a Receiver<T>,
        }
        impl<'a, T> Iterator for TryIter<'a, T> {
            type Item = T;
            fn next(&mut self) -> Option<T> {
                self.rx.try_recv().ok()
            }
        }
        pub struct IntoIter<T> {
            rx: Receiver<T>,
        }
        impl<T> Iterator for IntoIter<T> {
            type Item = T;
            fn next(&mut self) -> Option<T> {
                self.rx.recv().ok()
            }
        }
        impl<T> IntoIterator for Receiver<T> {
            type Item = T;
            type IntoIter = IntoIter<T>;
            fn into_iter(self) -> IntoIter<T> {
                IntoIter { rx: self }
            }
        }
        impl<'a, T> IntoIterator for &'a Receiver<T> {
            type Item = T;
            type IntoIter = Iter<'a, T>;
            fn into_iter(self) -> Iter<'a, T> {
                self.iter()
            }
        }
    }

    pub struct Mutex<T: ?Sized> {
        inner: shuttle::sync::Mutex<T>,
    }

    pub struct MutexGuard<'a, T: ?Sized> {
        guard: Option<shuttle::sync::MutexGuard<'a, T>>,
        mutex: &'a Mutex<T>,
    }

    impl<T> Mutex<T> {
        pub fn new(t: T) -> Mutex<T> {
            Mutex { inner: shuttle::sync::Mutex::new(t) }
        }
        pub fn into_inner(self) -> LockResult<T> {
            self.inner.into_inner()
        }
    }

    impl<T: ?Sized> Mutex<T> {
        pub fn lock(&self) -> LockResult<MutexGuard<'_, T>> {
            match self.inner.lock() {
                Ok(g) => Ok(MutexGuard { guard: Some(g), mutex: self }),
                Err(p) => Err(PoisonError::new(MutexGuard { guard: Some(p.into_inner()), mutex: self })),
            }
        }
        /// as std's: never waits; `WouldBlock` when another task holds the lock
        pub fn try_lock(&self) -> TryLockResult<MutexGuard<'_, T>> {
            match self.inner.try_lock() {
                Ok(g) => Ok(MutexGuard { guard: Some(g), mutex: self }),
                Err(TryLockError::WouldBlock) => Err(TryLockError::WouldBlock),
                Err(TryLockError::Poisoned(p)) => Err(TryLockError::Poisoned(PoisonError::new(MutexGuard { guard: Some(p.into_inner()), mutex: self }))),
            }
        }
        pub fn get_mut(&mut self) -> LockResult<&mut T> {
            self.inner.get_mut()
        }
    }

    impl<T: ?Sized + std::fmt::Debug> std::fmt::Debug for Mutex<T> {
        fn fmt(&self, f: &mut std::fmt::Formatter<'_>) -> std::fmt::Result {
            f.write_str("Mutex { .. }")
        }
    }

    impl<T: ?Sized> std::ops::Deref for MutexGuard<'_, T> {
        type Target = T;
        fn deref(&self) -> &T {
            self.guard.as_ref().unwrap()
        }
    }
    impl<T: ?Sized> std::ops::DerefMut for MutexGuard<'_, T> {
        fn deref_mut(&mut self) -> &mut T {
            self.guard.as_mut().unwrap()
        }
    }

    #[derive(Debug, PartialEq, Eq, Copy, Clone)]
    pub struct WaitTimeoutResult(bool);
    impl WaitTimeoutResult {
        pub fn timed_out(&self) -> bool {
            self.0
        }
    }

    pub struct Condvar {
        waiters: WaitList,
    }

    impl Default for Condvar {
        fn default() -> Self {
            Self::new()
        }
    }

    impl std::fmt::Debug for Condvar {
        fn fmt(&self, f: &mut std::fmt::Formatter<'_>) -> std::fmt::Result {
            f.write_str("Condvar { .. }")
        }
    }

    impl Condvar {
        pub fn new() -> Condvar {
            Condvar { waiters: StdArc::new(StdMutex::new(Vec::new())) }
        }

        fn wait_inner<'a, T: ?Sized>(&self, mut guard: MutexGuard<'a, T>, timeout: Option<std::time::Duration>) -> (MutexGuard<'a, T>, bool) {
            let key = task_key();
            let w = RT.with(|rt| {
                let mut rt = rt.borrow_mut();
                rt.next_id += 1;
                rt.counters.condvar_waits += 1;
                *rt.waits_by_task.entry(key).or_insert(0) += 1;
                StdArc::new(Waiter { id: rt.next_id, thread: shuttle::thread::current(), state: AtomicU8::new(WAITING) })
            });
            // registered before the mutex is released: no lost wake-up
            self.waiters.lock().unwrap().push(w.clone());
            // (a timeout of a century or more never fires within an execution: it is a wait
            // without a timer, so that a wake-up lost on it still shows as a deadlock)
            let timeout = timeout.filter(|d| d.as_secs() < 3_000_000_000);
            if let Some(d) = timeout {
                RT.with(|rt| {
                    let mut rt = rt.borrow_mut();
                    rt.counters.timed_waits += 1;
                    let deadline_ns = rt.now_ns.saturating_add(d.as_nanos().min(u64::MAX as u128) as u64);
                    let seq = rt.next_id;
                    rt.timers.push(Timer { deadline_ns, seq, waiter: w.clone(), list: self.waiters.clone() });
                });
                poke_clock();
            }
            let mutex = guard.mutex;
            drop(guard.guard.take()); // unlock (a scheduling point of the controlled runtime)
            drop(guard);
            while w.state.load(StdOrdering::SeqCst) == WAITING {
                shuttle::thread::park();
            }
            let timed_out = w.state.load(StdOrdering::SeqCst) == TIMEDOUT;
            let g = match mutex.lock() {
                Ok(g) => g,
                Err(p) => p.into_inner(),
            };
            (g, timed_out)
        }

        pub fn wait<'a, T: ?Sized>(&self, guard: MutexGuard<'a, T>) -> LockResult<MutexGuard<'a, T>> {
            Ok(self.wait_inner(guard, None).0)
        }

        pub fn wait_timeout<'a, T: ?Sized>(&self, guard: MutexGuard<'a, T>, dur: std::time::Duration) -> LockResult<(MutexGuard<'a, T>, WaitTimeoutResult)> {
            let (g, t) = self.wait_inner(guard, Some(dur));
            Ok((g, WaitTimeoutResult(t)))
        }

        pub fn wait_while<'a, T: ?Sized, F: FnMut(&mut T) -> bool>(&self, mut guard: MutexGuard<'a, T>, mut condition: F) -> LockResult<MutexGuard<'a, T>> {
            while condition(&mut *guard) {
                guard = self.wait_inner(guard, None).0;
            }
            Ok(guard)
        }

        pub fn wait_timeout_while<'a, T: ?Sized, F: FnMut(&mut T) -> bool>(&self, mut guard: MutexGuard<'a, T>, dur: std::time::Duration, mut condition: F) -> LockResult<(MutexGuard<'a, T>, WaitTimeoutResult)> {
            let start = super::time::Instant::now();
            loop {
                if !condition(&mut *guard) {
                    return Ok((guard, WaitTimeoutResult(false)));
                }
                let left = match dur.checked_sub(start.elapsed()) {
                    Some(l) => l,
                    None => return Ok((guard, WaitTimeoutResult(true))),
                };
                guard = self.wait_inner(guard, Some(left)).0;
            }
        }

        pub fn notify_one(&self) {
            RT.with(|rt| rt.borrow_mut().counters.notifies += 1);
            let n = self.waiters.lock().unwrap().len();
            if n == 0 {
                return;
            }
            // which waiter wakes is the scheduler's choice
            let idx = if n == 1 { 0 } else { (super::probe::rand_u64() % n as u64) as usize };
            let w = {
                let mut l = self.waiters.lock().unwrap();
                if idx < l.len() {
                    Some(l.remove(idx))
                } else {
                    l.pop()
                }
            };
            if let Some(w) = w {
                w.state.store(NOTIFIED, StdOrdering::SeqCst);
                w.thread.unpark();
            }
        }

        pub fn notify_all(&self) {
            RT.with(|rt| rt.borrow_mut().counters.notifies += 1);
            let all: Vec<StdArc<Waiter>> = std::mem::take(&mut *self.waiters.lock().unwrap());
            for w in all {
                w.state.store(NOTIFIED, StdOrdering::SeqCst);
                w.thread.unpark();
            }
        }
    }
}
