//! Runtime shim for the tiny-http verification hooks (`--cfg tiny_http_verif`).
//!
//! * default: plain re-exports of `std` — the hooked library is the normal library plus the
//!   in-memory transport;
//! * feature `sched`: the same names backed by shuttle, plus a condition variable whose timed
//!   waits are fired by a *virtual clock task*, so that every scheduling decision and every
//!   timeout is decided by the harness' schedule tape.

#[cfg(not(feature = "sched"))]
mod imp_std;
#[cfg(not(feature = "sched"))]
pub use imp_std::*;

#[cfg(feature = "sched")]
mod imp_sched;
#[cfg(feature = "sched")]
pub use imp_sched::*;

pub mod mem;
