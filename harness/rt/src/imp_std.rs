pub mod sync {
    pub use std::sync::{Arc, Condvar, LockResult, Mutex, MutexGuard, PoisonError, Weak};
    pub mod atomic {
        pub use std::sync::atomic::*;
    }
    pub mod mpsc {
        pub use std::sync::mpsc::*;
    }
}
pub mod thread {
    pub use std::thread::*;
}
pub mod time {
    pub use std::time::{Duration, Instant};
}
/// instrumentation that only means something under the controlled runtime
pub mod probe {
    pub fn condvar_waits_of_current_task() -> u64 {
        0
    }
    pub fn rand_u64() -> u64 {
        0
    }
}
