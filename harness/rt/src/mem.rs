//! In-memory listener / connection used by the hooked tiny-http builds.
//!
//! Built on whichever primitives are active (`std` or the controlled runtime), so it is usable
//! from OS threads and from controlled tasks alike.  A client `send` enqueues one *segment*; a
//! server `read` returns bytes of the front segment only, so segmentation is exact.

use crate::sync::{Arc, Condvar, Mutex};
use std::collections::VecDeque;
use std::io;
use std::net::Shutdown;

#[derive(Clone, Debug, PartialEq, Eq)]
pub enum Event {
    Write(usize),
    Flush,
    ShutdownRead,
    ShutdownWrite,
}

/// what the scripted client does when the server wants input and none is queued
pub enum Starve {
    Data(Vec<u8>),
    Eof,
    Error(io::ErrorKind),
    /// the client is itself waiting for output the server has not produced: nobody can move
    Stall(String),
    /// the script is over and the client just keeps the connection open
    Idle,
    /// orderly close of both directions: reads see end-of-stream, later writes fail with the kind
    Close(io::ErrorKind),
    /// the client vanishes abruptly: reads and later writes fail with the kind
    Abort(io::ErrorKind),
}

pub struct StarveView<'a> {
    pub out: &'a [u8],
    pub consumed: usize,
    pub out_shutdown: bool,
}

type StarveFn = Box<dyn FnMut(&StarveView<'_>) -> Starve + Send>;

struct CState {
    inbox: VecDeque<Vec<u8>>,
    in_pos: usize,
    in_eof: bool,
    in_err: Option<io::ErrorKind>,
    read_shutdown: bool,
    out: Vec<u8>,
    out_shutdown: bool,
    write_fault: Option<(usize, io::ErrorKind)>,
    /// every k-th call of write() fails with `Interrupted` without taking anything (0 = never)
    write_interrupt_every: usize,
    write_calls: usize,
    /// every k-th call of read() fails with `Interrupted` without delivering anything (0 = never)
    read_interrupt_every: usize,
    /// a write call takes at most this many bytes (0 = everything)
    write_max: usize,
    consumed: usize,
    events: Vec<Event>,
    starve: Option<StarveFn>,
    stalled: Option<String>,
    idle_end: bool,
    reads: u64,
    reads_after_end: u64,
}

struct CShared {
    st: Mutex<CState>,
    cv: Condvar,
}

/// server side of an in-memory connection
#[derive(Clone)]
pub struct MemConn {
    sh: Arc<CShared>,
}

/// client side of an in-memory connection
#[derive(Clone)]
pub struct MemClient {
    sh: Arc<CShared>,
}

impl std::fmt::Debug for MemConn {
    fn fmt(&self, f: &mut std::fmt::Formatter<'_>) -> std::fmt::Result {
        f.write_str("MemConn")
    }
}

pub fn pair() -> (MemClient, MemConn) {
    let sh = Arc::new(CShared {
        st: Mutex::new(CState {
            inbox: VecDeque::new(),
            in_pos: 0,
            in_eof: false,
            in_err: None,
            read_shutdown: false,
            out: Vec::new(),
            out_shutdown: false,
            write_fault: None,
            write_interrupt_every: 0,
            write_calls: 0,
            read_interrupt_every: 0,
            write_max: 0,
            consumed: 0,
            events: Vec::new(),
            starve: None,
            stalled: None,
            idle_end: false,
            reads: 0,
            reads_after_end: 0,
        }),
        cv: Condvar::new(),
    });
    (MemClient { sh: sh.clone() }, MemConn { sh })
}

impl MemConn {
    pub fn read(&mut self, buf: &mut [u8]) -> io::Result<usize> {
        let mut st = self.sh.st.lock().unwrap();
        st.reads += 1;
        if st.read_interrupt_every > 0 && st.reads % st.read_interrupt_every as u64 == 0 {
            return Err(io::Error::new(io::ErrorKind::Interrupted, "injected transient read error"));
        }
        loop {
            if st.read_shutdown {
                return Ok(0);
            }
            // drop exhausted segments
            while let Some(front) = st.inbox.front() {
                if st.in_pos >= front.len() {
                    st.inbox.pop_front();
                    st.in_pos = 0;
                } else {
                    break;
                }
            }
            if let Some(front) = st.inbox.front() {
                if buf.is_empty() {
                    return Ok(0);
                }
                let n = (front.len() - st.in_pos).min(buf.len());
                buf[..n].copy_from_slice(&front[st.in_pos..st.in_pos + n]);
                st.in_pos += n;
                st.consumed += n;
                return Ok(n);
            }
            if st.in_err.is_some() || st.in_eof {
                // a caller that keeps reading after the end (or after an error) without ever giving
                // up is spinning: break the loop so that the harness can report it
                st.reads_after_end += 1;
                if st.reads_after_end > 20_000 {
                    st.stalled = Some(format!("the server read {} times after end-of-stream / a read error without giving up (busy loop)", st.reads_after_end));
                    drop(st);
                    panic!("verif: busy loop on a finished connection");
                }
            }
            if let Some(k) = st.in_err {
                return Err(io::Error::new(k, "injected read fault"));
            }
            if st.in_eof {
                return Ok(0);
            }
            if let Some(mut f) = st.starve.take() {
                let action = {
                    let view = StarveView { out: &st.out, consumed: st.consumed, out_shutdown: st.out_shutdown };
                    f(&view)
                };
                st.starve = Some(f);
                match action {
                    Starve::Data(v) => {
                        if !v.is_empty() {
                            st.inbox.push_back(v);
                        }
                        continue;
                    }
                    Starve::Eof => {
                        st.in_eof = true;
                        continue;
                    }
                    Starve::Error(k) => {
                        st.in_err = Some(k);
                        continue;
                    }
                    Starve::Stall(msg) => {
                        st.stalled = Some(msg);
                        st.in_err = Some(io::ErrorKind::Other);
                        continue;
                    }
                    Starve::Idle => {
                        st.idle_end = true;
                        st.in_err = Some(io::ErrorKind::Other);
                        continue;
                    }
                    Starve::Close(k) => {
                        st.in_eof = true;
                        let len = st.out.len();
                        if st.write_fault.is_none() {
                            st.write_fault = Some((len, k));
                        }
                        continue;
                    }
                    Starve::Abort(k) => {
                        st.in_err = Some(k);
                        let len = st.out.len();
                        if st.write_fault.is_none() {
                            st.write_fault = Some((len, k));
                        }
                        continue;
                    }
                }
            }
            st = self.sh.cv.wait(st).unwrap();
        }
    }

    pub fn write(&mut self, buf: &[u8]) -> io::Result<usize> {
        let mut st = self.sh.st.lock().unwrap();
        if st.out_shutdown {
            return Err(io::Error::new(io::ErrorKind::BrokenPipe, "write after shutdown"));
        }
        st.write_calls += 1;
        if st.write_interrupt_every > 0 && st.write_calls % st.write_interrupt_every == 0 {
            return Err(io::Error::new(io::ErrorKind::Interrupted, "injected transient write error"));
        }
        let mut n = buf.len();
        if st.write_max > 0 {
            n = n.min(st.write_max);
        }
        if let Some((limit, kind)) = st.write_fault {
            if st.out.len() >= limit {
                return Err(io::Error::new(kind, "injected write fault"));
            }
            n = n.min(limit - st.out.len());
        }
        st.out.extend_from_slice(&buf[..n]);
        st.events.push(Event::Write(n));
        self.sh.cv.notify_all();
        Ok(n)
    }

    pub fn flush(&mut self) -> io::Result<()> {
        let mut st = self.sh.st.lock().unwrap();
        st.events.push(Event::Flush);
        Ok(())
    }

    pub fn shutdown(&self, how: Shutdown) -> io::Result<()> {
        let mut st = self.sh.st.lock().unwrap();
        match how {
            Shutdown::Read => {
                st.read_shutdown = true;
                st.events.push(Event::ShutdownRead);
            }
            Shutdown::Write => {
                st.out_shutdown = true;
                st.events.push(Event::ShutdownWrite);
            }
            Shutdown::Both => {
                st.read_shutdown = true;
                st.out_shutdown = true;
                st.events.push(Event::ShutdownRead);
                st.events.push(Event::ShutdownWrite);
            }
        }
        self.sh.cv.notify_all();
        Ok(())
    }
}

impl MemClient {
    /// enqueue one segment
    pub fn send(&self, bytes: &[u8]) {
        if bytes.is_empty() {
            return;
        }
        let mut st = self.sh.st.lock().unwrap();
        st.inbox.push_back(bytes.to_vec());
        self.sh.cv.notify_all();
    }
    /// orderly close of the client's sending direction
    pub fn close_write(&self) {
        let mut st = self.sh.st.lock().unwrap();
        st.in_eof = true;
        self.sh.cv.notify_all();
    }
    /// the client vanishes: pending and future reads fail with `kind` (after queued data), and
    /// writes fail with `kind` from now on
    pub fn abort(&self, kind: io::ErrorKind) {
        let mut st = self.sh.st.lock().unwrap();
        st.in_err = Some(kind);
        let len = st.out.len();
        if st.write_fault.is_none() {
            st.write_fault = Some((len, kind));
        }
        self.sh.cv.notify_all();
    }
    pub fn set_read_error(&self, kind: io::ErrorKind) {
        let mut st = self.sh.st.lock().unwrap();
        st.in_err = Some(kind);
        self.sh.cv.notify_all();
    }
    /// writes succeed until `limit` bytes in total have been written, then fail with `kind`
    pub fn set_write_fault(&self, limit: usize, kind: io::ErrorKind) {
        let mut st = self.sh.st.lock().unwrap();
        st.write_fault = Some((limit, kind));
    }
    /// every k-th write call reports `Interrupted` (a transient error: the caller is to try again)
    pub fn set_write_interrupts(&self, every: usize) {
        let mut st = self.sh.st.lock().unwrap();
        st.write_interrupt_every = every;
    }
    /// every k-th read call reports `Interrupted` (a transient error: the caller is to try again)
    pub fn set_read_interrupts(&self, every: usize) {
        let mut st = self.sh.st.lock().unwrap();
        st.read_interrupt_every = every;
    }
    /// a write call takes at most `max` bytes (short writes; 0 = everything)
    pub fn set_write_max(&self, max: usize) {
        let mut st = self.sh.st.lock().unwrap();
        st.write_max = max;
    }
    pub fn set_starve(&self, f: StarveFn) {
        let mut st = self.sh.st.lock().unwrap();
        st.starve = Some(f);
    }
    pub fn output(&self) -> Vec<u8> {
        self.sh.st.lock().unwrap().out.clone()
    }
    pub fn output_len(&self) -> usize {
        self.sh.st.lock().unwrap().out.len()
    }
    pub fn output_closed(&self) -> bool {
        self.sh.st.lock().unwrap().out_shutdown
    }
    pub fn read_closed(&self) -> bool {
        self.sh.st.lock().unwrap().read_shutdown
    }
    pub fn consumed(&self) -> usize {
        self.sh.st.lock().unwrap().consumed
    }
    pub fn events(&self) -> Vec<Event> {
        self.sh.st.lock().unwrap().events.clone()
    }
    pub fn stalled(&self) -> Option<String> {
        self.sh.st.lock().unwrap().stalled.clone()
    }
    pub fn idle_end(&self) -> bool {
        self.sh.st.lock().unwrap().idle_end
    }
    pub fn server_reads(&self) -> u64 {
        self.sh.st.lock().unwrap().reads
    }
    /// blocks until `pred(output, output_closed)` holds
    pub fn wait_output(&self, pred: impl Fn(&[u8], bool) -> bool) -> Vec<u8> {
        let mut st = self.sh.st.lock().unwrap();
        loop {
            if pred(&st.out, st.out_shutdown) {
                return st.out.clone();
            }
            st = self.sh.cv.wait(st).unwrap();
        }
    }
}

struct LState {
    pending: VecDeque<MemConn>,
    closed: bool,
    accepted: u64,
}

struct LShared {
    st: Mutex<LState>,
    cv: Condvar,
}

#[derive(Clone)]
pub struct MemListener {
    sh: Arc<LShared>,
}

impl Default for MemListener {
    fn default() -> Self {
        Self::new()
    }
}

impl MemListener {
    pub fn new() -> MemListener {
        MemListener { sh: Arc::new(LShared { st: Mutex::new(LState { pending: VecDeque::new(), closed: false, accepted: 0 }), cv: Condvar::new() }) }
    }
    pub fn connect(&self) -> io::Result<MemClient> {
        let mut st = self.sh.st.lock().unwrap();
        if st.closed {
            return Err(io::Error::new(io::ErrorKind::ConnectionRefused, "listener closed"));
        }
        let (c, s) = pair();
        st.pending.push_back(s);
        self.sh.cv.notify_all();
        Ok(c)
    }
    pub fn accept(&self) -> io::Result<MemConn> {
        let mut st = self.sh.st.lock().unwrap();
        loop {
            if let Some(c) = st.pending.pop_front() {
                st.accepted += 1;
                return Ok(c);
            }
            if st.closed {
                return Err(io::Error::new(io::ErrorKind::Other, "listener closed"));
            }
            st = self.sh.cv.wait(st).unwrap();
        }
    }
    pub fn close(&self) {
        let mut st = self.sh.st.lock().unwrap();
        st.closed = true;
        self.sh.cv.notify_all();
    }
    pub fn is_closed(&self) -> bool {
        self.sh.st.lock().unwrap().closed
    }
    pub fn accepted(&self) -> u64 {
        self.sh.st.lock().unwrap().accepted
    }
    pub fn pending(&self) -> usize {
        self.sh.st.lock().unwrap().pending.len()
    }
}
