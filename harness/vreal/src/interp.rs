//! Interpreter of handler programs against the tiny-http API.  Shared (via `#[path]`) by every
//! harness binary, so the same source is compiled against each flavour of `tiny_http`.

use std::io::{Read, Write};
use std::sync::Mutex;
use tiny_http::{Header, Request, Response, StatusCode};
use vcore::conv::{resp_body, upgrade_reply, writer_bytes, Delivered, Finish, Prog, ReadObs, ReadPlan};

pub fn parse_id(url: &str, nonce: &str) -> Option<u32> {
    // the marker "/<nonce>/r<id>" may be preceded by scheme and authority (absolute-form target)
    let marker = format!("/{}/r", nonce);
    let at = url.find(&marker)?;
    if at != 0 && !url[..at].contains("://") {
        return None;
    }
    let rest = &url[at + marker.len()..];
    let digits: String = rest.chars().take_while(|c| c.is_ascii_digit()).collect();
    if digits.is_empty() {
        return None;
    }
    digits.parse().ok()
}

/// one read, called again when the transport reports a transient `Interrupted` (what read_exact,
/// read_to_end and every careful caller do)
fn rd(r: &mut dyn Read, b: &mut [u8]) -> std::io::Result<usize> {
    loop {
        match r.read(b) {
            Err(e) if e.kind() == std::io::ErrorKind::Interrupted => continue,
            x => return x,
        }
    }
}

pub fn describe(rq: &Request, nonce: &str) -> Delivered {
    Delivered {
        url: rq.url().to_string(),
        id: parse_id(rq.url(), nonce),
        method: rq.method().as_str().to_string(),
        version: (rq.http_version().0, rq.http_version().1),
        headers: rq.headers().iter().map(|h| (h.field.as_str().as_str().to_string(), h.value.as_str().to_string())).collect(),
        remote_addr: rq.remote_addr().map(|a| a.to_string()),
        body_length: rq.body_length(),
        views: views(rq),
        ..Delivered::default()
    }
}

fn views(rq: &Request) -> Vec<String> {
    let mut v = vec![format!("m={}", rq.method()), format!("v={}", rq.http_version())];
    let mut eq = "e=ok".to_string();
    for h in rq.headers() {
        v.push(format!("h={}", h));
        let name = h.field.as_str().as_str();
        let same = |s: &str| s.parse::<tiny_http::HeaderField>().map(|f| f == h.field).unwrap_or(false);
        let statics_ok = ["Host", "HOST", "content-length", "Connection", "TE", "X"].iter().all(|n| h.field.equiv(n) == name.eq_ignore_ascii_case(n));
        if !same(&name.to_ascii_uppercase()) || !same(&name.to_ascii_lowercase()) || same(&format!("{}x", name)) || (name.len() > 1 && same(&name[..name.len() - 1])) || !statics_ok {
            eq = format!("e=name {:?}", name);
        }
    }
    v.push(format!("d={:?}", rq));
    v.push(eq);
    v
}

fn run_reads(rq: &mut Request, plan: &ReadPlan, d: &mut Delivered) {
    match plan {
        ReadPlan::None => {}
        ReadPlan::Touch { calls } => {
            for _ in 0..*calls {
                let _ = rq.as_reader();
            }
        }
        ReadPlan::Std { how } => {
            let want = d.body_length;
            match how % 6 {
                0 => {
                    let mut v = vec![];
                    match rq.as_reader().read_to_end(&mut v) {
                        Ok(n) => {
                            d.reads.push(ReadObs { buf: n.max(1), res: Ok(n) });
                            d.reads.push(ReadObs { buf: 1, res: Ok(0) });
                            d.body.extend_from_slice(&v);
                        }
                        Err(e) => d.reads.push(ReadObs { buf: 0, res: Err(format!("{:?}: {}", e.kind(), e)) }),
                    }
                }
                1 => {
                    // the body pattern is not UTF-8: the data is consumed to the end all the same
                    let mut s = String::new();
                    match rq.as_reader().read_to_string(&mut s) {
                        Ok(n) => {
                            d.reads.push(ReadObs { buf: n.max(1), res: Ok(n) });
                            d.reads.push(ReadObs { buf: 1, res: Ok(0) });
                            d.body.extend_from_slice(s.as_bytes());
                        }
                        Err(e) if e.kind() == std::io::ErrorKind::InvalidData => d.opaque_read = true,
                        Err(e) => d.reads.push(ReadObs { buf: 0, res: Err(format!("{:?}: {}", e.kind(), e)) }),
                    }
                }
                2 => {
                    let mut v: Vec<u8> = vec![];
                    match std::io::copy(rq.as_reader(), &mut v) {
                        Ok(n) => {
                            d.reads.push(ReadObs { buf: (n as usize).max(1), res: Ok(n as usize) });
                            d.reads.push(ReadObs { buf: 1, res: Ok(0) });
                            d.body.extend_from_slice(&v);
                        }
                        Err(e) => d.reads.push(ReadObs { buf: 0, res: Err(format!("{:?}: {}", e.kind(), e)) }),
                    }
                }
                3 => {
                    let mut v = vec![];
                    let mut failed = None;
                    for b in rq.as_reader().bytes() {
                        match b {
                            Ok(b) => v.push(b),
                            Err(e) => {
                                failed = Some(format!("{:?}: {}", e.kind(), e));
                                break;
                            }
                        }
                    }
                    d.reads.push(ReadObs { buf: v.len().max(1), res: Ok(v.len()) });
                    match failed {
                        Some(e) => d.reads.push(ReadObs { buf: 1, res: Err(e) }),
                        None => d.reads.push(ReadObs { buf: 1, res: Ok(0) }),
                    }
                    d.body.extend_from_slice(&v);
                }
                4 => {
                    // read_exact of the declared length (when there is one), then look for EOF
                    let n = want.unwrap_or(0);
                    let mut v = vec![0u8; n];
                    match rq.as_reader().read_exact(&mut v) {
                        Ok(()) => {
                            if n > 0 {
                                d.reads.push(ReadObs { buf: n, res: Ok(n) });
                            }
                            d.body.extend_from_slice(&v);
                            let mut b = [0u8; 512];
                            loop {
                                match rd(rq.as_reader(), &mut b) {
                                    Ok(0) => {
                                        d.reads.push(ReadObs { buf: 512, res: Ok(0) });
                                        break;
                                    }
                                    Ok(k) => {
                                        d.body.extend_from_slice(&b[..k]);
                                        d.reads.push(ReadObs { buf: 512, res: Ok(k) });
                                    }
                                    Err(e) => {
                                        d.reads.push(ReadObs { buf: 512, res: Err(format!("{:?}: {}", e.kind(), e)) });
                                        break;
                                    }
                                }
                            }
                        }
                        Err(e) => d.reads.push(ReadObs { buf: n, res: Err(format!("{:?}: {}", e.kind(), e)) }),
                    }
                }
                _ => {
                    let mut a = [0u8; 300];
                    let mut b = [0u8; 700];
                    // the shape of the buffer list varies with the request: two buffers, an empty one in
                    // front (the two free regions of a ring buffer), an empty one in the middle
                    let mut e1: [u8; 0] = [];
                    let mut e2: [u8; 0] = [];
                    let shape = (d.id.unwrap_or(0) as usize + d.body_length.unwrap_or(1) + d.headers.len()) % 3;
                    loop {
                        let r = {
                            let mut bufs = match shape {
                                1 => [std::io::IoSliceMut::new(&mut e1), std::io::IoSliceMut::new(&mut a), std::io::IoSliceMut::new(&mut b)],
                                2 => [std::io::IoSliceMut::new(&mut a), std::io::IoSliceMut::new(&mut e1), std::io::IoSliceMut::new(&mut b)],
                                _ => [std::io::IoSliceMut::new(&mut a), std::io::IoSliceMut::new(&mut b), std::io::IoSliceMut::new(&mut e2)],
                            };
                            loop {
                                match rq.as_reader().read_vectored(&mut bufs) {
                                    Err(e) if e.kind() == std::io::ErrorKind::Interrupted => continue,
                                    x => break x,
                                }
                            }
                        };
                        match r {
                            Ok(0) => {
                                d.reads.push(ReadObs { buf: 1000, res: Ok(0) });
                                break;
                            }
                            Ok(k) => {
                                let k1 = k.min(300);
                                d.body.extend_from_slice(&a[..k1]);
                                if k > 300 {
                                    d.body.extend_from_slice(&b[..(k - 300).min(700)]);
                                }
                                d.reads.push(ReadObs { buf: 1000, res: Ok(k) });
                            }
                            Err(e) => {
                                d.reads.push(ReadObs { buf: 1000, res: Err(format!("{:?}: {}", e.kind(), e)) });
                                break;
                            }
                        }
                    }
                }
            }
        }
        ReadPlan::Sizes(sizes) => {
            for &s in sizes {
                let mut buf = vec![0u8; s];
                let r = rd(rq.as_reader(), &mut buf);
                match r {
                    Ok(n) => {
                        d.body.extend_from_slice(&buf[..n.min(s)]);
                        d.reads.push(ReadObs { buf: s, res: Ok(n) });
                    }
                    Err(e) => {
                        d.reads.push(ReadObs { buf: s, res: Err(format!("{:?}: {}", e.kind(), e)) });
                        break;
                    }
                }
            }
        }
        ReadPlan::ToEof { buf, extra } => {
            let s = (*buf).max(1);
            let mut b = vec![0u8; s];
            let mut guard = 0usize;
            loop {
                let r = rd(rq.as_reader(), &mut b);
                match r {
                    Ok(0) => {
                        d.reads.push(ReadObs { buf: s, res: Ok(0) });
                        break;
                    }
                    Ok(n) => {
                        d.body.extend_from_slice(&b[..n.min(s)]);
                        d.reads.push(ReadObs { buf: s, res: Ok(n) });
                    }
                    Err(e) => {
                        d.reads.push(ReadObs { buf: s, res: Err(format!("{:?}: {}", e.kind(), e)) });
                        return;
                    }
                }
                guard += 1;
                if guard > 50_000_000 {
                    break;
                }
            }
            for _ in 0..*extra {
                let r = rd(rq.as_reader(), &mut b);
                match r {
                    Ok(n) => {
                        d.body.extend_from_slice(&b[..n.min(s)]);
                        d.reads.push(ReadObs { buf: s, res: Ok(n) });
                    }
                    Err(e) => {
                        d.reads.push(ReadObs { buf: s, res: Err(format!("{:?}: {}", e.kind(), e)) });
                        break;
                    }
                }
            }
        }
    }
}

pub fn build_response(id: u32, status: u16, body_len: usize, declared: bool, threshold: Option<usize>) -> Response<std::io::Cursor<Vec<u8>>> {
    let body = resp_body(id, body_len);
    let mut r = Response::new(
        StatusCode(status),
        vec![Header::from_bytes(&b"X-Rid"[..], id.to_string().as_bytes()).unwrap()],
        std::io::Cursor::new(body),
        if declared { Some(body_len) } else { None },
        None,
    );
    if let Some(t) = threshold {
        r = r.with_chunked_threshold(t);
    }
    r
}

/// Runs `prog` on `rq`.  The record is pushed to `sink` *before* the finishing action (so that a
/// panicking program still leaves its trace) and completed afterwards.
pub fn handle(rq: Request, prog: &Prog, nonce: &str, client_len: usize, sink: &Mutex<Vec<Delivered>>) {
    handle_with(rq, prog, nonce, client_len, sink, &|| {})
}

/// `before_finish` runs after the reads, right before the finishing action (used by the
/// scheduled engine to realise start orders).
pub fn handle_with(rq: Request, prog: &Prog, nonce: &str, client_len: usize, sink: &Mutex<Vec<Delivered>>, before_finish: &dyn Fn()) {
    handle_with2(rq, prog, nonce, client_len, sink, before_finish, &|| {})
}

/// As `handle_with`; `writer_held` runs when a raw writer has written and flushed its whole
/// response and is still alive (the application may keep it: the request is answered all the same).
pub fn handle_with2(mut rq: Request, prog: &Prog, nonce: &str, client_len: usize, sink: &Mutex<Vec<Delivered>>, before_finish: &dyn Fn(), writer_held: &dyn Fn()) {
    let mut d = describe(&rq, nonce);
    d.client_len_at_delivery = client_len;
    let id = d.id.unwrap_or(9999);
    run_reads(&mut rq, &prog.read, &mut d);
    d.finish = match &prog.finish {
        Finish::Respond { .. } => "respond",
        Finish::Writer { .. } => "writer",
        Finish::Upgrade { .. } => "upgrade",
        Finish::Drop => "drop",
        Finish::Panic => "panic",
        Finish::WriterUnused => "writer-unused",
        Finish::WriterPanic => "writer-panic",
        Finish::RespondFailing { .. } => "respond-failing",
    }
    .to_string();
    let slot = {
        let mut s = sink.lock().unwrap();
        s.push(d);
        s.len() - 1
    };
    before_finish();
    match &prog.finish {
        Finish::Respond { status, body_len, declared, threshold } => {
            // the builder chain varies with the request id (typed, boxed after the threshold was
            // set, threshold set on the boxed response, body replaced through with_data)
            let r = match id % 4 {
                1 => rq.respond(build_response(id, *status, *body_len, *declared, *threshold).boxed()),
                2 => {
                    let mut b = build_response(id, *status, *body_len, *declared, None).boxed();
                    if let Some(t) = threshold {
                        b = b.with_chunked_threshold(*t);
                    }
                    rq.respond(b)
                }
                3 => {
                    let b = build_response(id, *status, 3, true, *threshold);
                    rq.respond(b.with_data(std::io::Cursor::new(resp_body(id, *body_len)), if *declared { Some(*body_len) } else { None }))
                }
                _ => rq.respond(build_response(id, *status, *body_len, *declared, *threshold)),
            };
            if let Err(e) = r {
                sink.lock().unwrap()[slot].respond_err = Some(format!("{:?}: {}", e.kind(), e));
            }
        }
        Finish::RespondFailing { declared_len, fail_after, panic } => {
            struct Failing {
                left: usize,
                panic: bool,
            }
            impl Read for Failing {
                fn read(&mut self, buf: &mut [u8]) -> std::io::Result<usize> {
                    if self.left == 0 {
                        if self.panic {
                            std::panic::panic_any(vcore::panics::HarnessPanic);
                        }
                        return Err(std::io::Error::new(std::io::ErrorKind::Other, "body source failed"));
                    }
                    let n = self.left.min(buf.len()).min(7);
                    for b in buf[..n].iter_mut() {
                        *b = b'x';
                    }
                    self.left -= n;
                    Ok(n)
                }
            }
            let resp = Response::new(StatusCode(200), vec![Header::from_bytes(&b"X-Rid"[..], id.to_string().as_bytes()).unwrap()], Failing { left: *fail_after, panic: *panic }, Some(*declared_len), None);
            let r = std::panic::catch_unwind(std::panic::AssertUnwindSafe(move || rq.respond(resp)));
            if let Ok(Err(e)) = r {
                sink.lock().unwrap()[slot].respond_err = Some(format!("{:?}: {}", e.kind(), e));
            }
        }
        Finish::Writer { body_len, cuts, flush_mask, zero_writes, how } => {
            let bytes = writer_bytes(id, *body_len);
            let mut w = rq.into_writer();
            let mut points: Vec<usize> = cuts.iter().map(|c| (*c as usize * bytes.len()) / 1024).collect();
            points.sort();
            points.push(bytes.len());
            let mut from = 0;
            for (i, p) in points.iter().enumerate() {
                let p = (*p).min(bytes.len()).max(from);
                if *zero_writes {
                    let _ = w.write(&[]);
                }
                let piece = &bytes[from..p];
                match how % 4 {
                    1 => {
                        let mut off = 0;
                        while off < piece.len() {
                            match w.write(&piece[off..]) {
                                // (a transient error: call again, as write_all does)
                                Err(e) if e.kind() == std::io::ErrorKind::Interrupted => continue,
                                Ok(0) | Err(_) => break,
                                Ok(n) => off += n,
                            }
                        }
                    }
                    2 => {
                        // two slices per call, until everything is out
                        let mut off = 0;
                        while off < piece.len() {
                            let mid = off + (piece.len() - off) / 2;
                            let bufs = [std::io::IoSlice::new(&piece[off..mid]), std::io::IoSlice::new(&piece[mid..])];
                            match w.write_vectored(&bufs) {
                                Err(e) if e.kind() == std::io::ErrorKind::Interrupted => continue,
                                Ok(0) | Err(_) => break,
                                Ok(n) => off += n,
                            }
                        }
                    }
                    3 => {
                        // write! goes through write_fmt; the pieces are ASCII
                        let _ = write!(w, "{}", String::from_utf8_lossy(piece));
                    }
                    _ => {
                        let _ = w.write_all(piece);
                    }
                }
                if (flush_mask >> (i % 8)) & 1 == 1 {
                    let _ = w.flush();
                }
                from = p;
            }
            let _ = w.flush();
            writer_held();
            drop(w);
        }
        Finish::Upgrade { proto } => {
            let mut stream = rq.upgrade(proto, Response::empty(101));
            let mut n = 0usize;
            let mut got = vec![];
            let mut reads = vec![];
            let mut b = [0u8; 4096];
            loop {
                match rd(&mut stream, &mut b) {
                    Ok(0) => {
                        reads.push(ReadObs { buf: 4096, res: Ok(0) });
                        break;
                    }
                    Ok(k) => {
                        n += k;
                        got.extend_from_slice(&b[..k.min(4096)]);
                        reads.push(ReadObs { buf: 4096, res: Ok(k) });
                    }
                    Err(e) => {
                        reads.push(ReadObs { buf: 4096, res: Err(format!("{:?}: {}", e.kind(), e)) });
                        break;
                    }
                }
            }
            {
                let mut s = sink.lock().unwrap();
                s[slot].body.extend_from_slice(&got);
                s[slot].reads.extend(reads);
            }
            let _ = stream.write_all(&upgrade_reply(id, n));
            let _ = stream.flush();
            drop(stream);
        }
        Finish::Drop => drop(rq),
        Finish::WriterUnused => {
            let w = rq.into_writer();
            drop(w);
        }
        Finish::WriterPanic => {
            let _w = rq.into_writer();
            std::panic::panic_any(vcore::panics::HarnessPanic);
        }
        Finish::Panic => {
            let _hold = rq;
            std::panic::panic_any(vcore::panics::HarnessPanic);
        }
    }
}
