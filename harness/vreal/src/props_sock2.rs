//! Socket-level parts that need the real kernel: vanishing clients (C15), real-clock bounds of
//! timed receives and unblock with OS threads (C17), shutdown and thread reclamation (C20).

use crate::sock::SockWorker;
use proptest::prelude::*;
use serde::{Deserialize, Serialize};
use std::io::{Read, Write};
use std::sync::Arc;
use std::time::{Duration, Instant};
use vcore::conv::*;
use vcore::gen;
use vcore::runner::{fail, Good, Verdict};
use vcore::wire::render;

// ------------------------------------------------------------------------------------------
// C15 over real sockets

#[derive(Clone, Debug, Serialize, Deserialize)]
pub struct SockCut {
    pub case: ConvCase,
    /// cut position as a fraction (of 65536) of the stream, snapped to a region boundary +-1 when `snap`
    pub frac: u16,
    pub snap: i8,
    /// 0 half-close, 1 close, 2 reset
    pub kind: u8,
}

pub fn c15_sock_strategy(max_len: usize) -> BoxedStrategy<SockCut> {
    let conv = prop_oneof![
        2 => gen::c02_strategy(gen::transport_strategy()),
        3 => gen::c03_strategy(max_len, gen::transport_strategy()),
        3 => gen::c09_strategy(max_len, gen::transport_strategy()),
        1 => gen::c18_strategy(gen::transport_strategy()),
    ];
    (conv, any::<u16>(), prop_oneof![2 => Just(0i8), 1 => Just(-1i8), 1 => Just(1i8), 2 => Just(9i8)], 0u8..3)
        .prop_map(|(mut case, frac, snap, kind)| {
            for p in case.progs.iter_mut() {
                if let ReadPlan::Sizes(_) = p.read {
                    p.read = ReadPlan::ToEof { buf: 3000, extra: 0 };
                }
            }
            SockCut { case, frac, snap, kind }
        })
        .boxed()
}

fn complete_prefix(case: &ConvCase, rd: &vcore::wire::Rendered, k: usize) -> usize {
    let mut n = 0;
    for (i, r) in rd.ranges.iter().enumerate() {
        let rq = &case.conv.reqs[i];
        let upgrades = rq.headers.iter().find(|h| h.name.eq_ignore_ascii_case("connection")).map(|h| h.value.to_ascii_lowercase().contains("upgrade")).unwrap_or(false);
        let buffered = matches!(rq.framing, vcore::wire::Framing::Length { n } if n > 0 && n <= 1024) && !rq.expects_continue() && !upgrades;
        let need = if buffered { r.end } else { r.head_end };
        if need <= k {
            n = i + 1;
        } else {
            break;
        }
    }
    n
}

pub fn c15_sock_test(w: &mut SockWorker, sc: &SockCut) -> Verdict {
    let rd = render(&sc.case.conv);
    let n = rd.bytes.len();
    let mut k = (sc.frac as usize * (n + 1)) >> 16;
    if sc.snap != 9 {
        // snap to the nearest region boundary, then shift by -1 / 0 / +1
        let b = rd.regions.iter().map(|r| r.0).min_by_key(|s| (*s as i64 - k as i64).abs()).unwrap_or(0);
        k = (b as i64 + sc.snap as i64).clamp(0, n as i64) as usize;
    }
    let mut case = sc.case.clone();
    case.script = vec![Step::Send { from: 0, to: k }, match sc.kind { 0 => Step::HalfClose, 1 => Step::Close, _ => Step::Reset }];
    let exp = expect(&sc.case);
    let complete = complete_prefix(&sc.case, &rd, k);
    let want: Vec<u32> = exp.delivered.iter().filter(|i| **i < complete).map(|i| sc.case.conv.reqs[*i].id).collect();
    let heads = |j: usize| exp.msgs.get(j).map(|m| m.head).unwrap_or(false);
    let (obs, _nonce) = w.run(&case, &heads);
    // the worker's servers live as long as the worker: a refused connection means that a server has
    // stopped accepting, which is exactly what earlier vanished clients must not bring about
    if obs.timeout.as_deref().map(|t| t.contains("connect failed") && t.contains("refused")).unwrap_or(false) {
        std::thread::sleep(Duration::from_millis(60));
        if w.connect(case.transport).is_err() {
            return fail("C15/sock/server-stopped-accepting", format!("after clients that vanished (half-close / close / reset at generated points) new connections to the same server are refused: {}", obs.timeout.clone().unwrap_or_default()));
        }
    }
    if let Some(v) = engine_trouble(&obs) {
        return v;
    }
    let label = ["halfclose", "close", "reset"][sc.kind as usize % 3];
    if let Some(p) = obs.panics.first() {
        return fail(format!("C15/{}/panic/{}", label, vcore::panics::signature_of(p)), format!("cut after {} of {} bytes: {} at {}", k, n, p.message, p.location));
    }
    for (j, d) in obs.delivered.iter().enumerate() {
        match d.id {
            None => return fail(format!("C15/{}/delivered-not-a-request", label), format!("cut after {} bytes: delivery #{} is {:?} {:?}", k, j, d.method, d.url)),
            Some(id) => {
                if !want.contains(&id) {
                    return fail(format!("C15/{}/incomplete-request-delivered", label), format!("cut after {} of {} bytes: request id {} delivered although only {} requests were complete", k, n, id, complete));
                }
            }
        }
    }
    if let Err((kk, d)) = comp_respond_ok(&obs) {
        return fail(format!("C15/{}/{}", label, kk), format!("cut after {} bytes: {}", k, d));
    }
    if sc.kind == 0 {
        let got: Vec<u32> = obs.delivered.iter().filter_map(|d| d.id).collect();
        if got != want {
            return fail("C15/halfclose/complete-request-not-delivered", format!("cut after {} of {} bytes: complete ids {:?}, delivered {:?}", k, n, want, got));
        }
        let n_msgs = exp.msgs.iter().filter(|m| m.req_idx < complete).count();
        let view = client_view(&obs.client, &exp);
        if view.finals.len() < n_msgs {
            return fail("C15/halfclose/complete-request-not-answered", format!("cut after {} of {} bytes: {} responses for {} delivered requests ({:?})", k, n, view.finals.len(), n_msgs, view.error));
        }
    }
    // the server keeps serving: a fresh connection on the same server
    let probe = ConvCase { conv: gen_probe(), progs: vec![Prog::ok()], script: vec![Step::Send { from: 0, to: usize::MAX }, Step::HalfClose], transport: sc.case.transport };
    let pexp = expect(&probe);
    let (pobs, _) = w.run(&probe, &|_| false);
    if pobs.timeout.as_deref().map(|t| t.contains("connect failed") && t.contains("refused")).unwrap_or(false) {
        return fail("C15/sock/server-stopped-accepting", format!("after a client that vanished ({} after {} of {} bytes) a new connection to the same server is refused: {}", label, k, n, pobs.timeout.clone().unwrap_or_default()));
    }
    if let Some(v) = engine_trouble(&pobs) {
        return v;
    }
    if let Err(v) = prefix("C15", comp_delivery_sequence(&probe, &pexp, &pobs)) {
        return match v {
            Verdict::Fail(b) => fail(format!("C15/{}/server-stopped-serving", label), b.detail),
            o => o,
        };
    }
    let inside = rd.ranges.iter().any(|r| k > r.start && k < r.end);
    let mut g = if inside { Good::nontrivial() } else { Good::trivial() };
    g = g.class(format!("kind:{}", label)).class(format!("transport:{:?}", sc.case.transport)).class(format!("region:{:?}", rd.region_at(k.min(n.saturating_sub(1)))));
    Verdict::Pass(g)
}

fn gen_probe() -> vcore::wire::Conversation {
    let mut c = vcore::wire::Conversation::default();
    let mut r = vcore::wire::ReqSpec::simple(0);
    r.path = "/probe".into();
    c.reqs.push(r);
    c
}

// ------------------------------------------------------------------------------------------
// C17 on the real clock / real threads

#[derive(Clone, Debug, Serialize, Deserialize)]
pub enum TimeCase {
    /// recv_timeout(T ms) on an idle server
    Timed { ms: u64, tcp: bool },
    /// `receivers` OS threads blocked in recv(), then `unblocks` calls
    Unblock { receivers: usize, unblocks: usize },
    /// try_recv on an idle server
    Try { n: usize },
}

pub fn c17_time_strategy() -> BoxedStrategy<TimeCase> {
    prop_oneof![
        5 => (proptest::sample::select(vec![0u64, 1, 2, 5, 10, 20, 50, 100]), any::<bool>()).prop_map(|(ms, tcp)| TimeCase::Timed { ms, tcp }),
        3 => (1usize..=4).prop_flat_map(|r| (Just(r), 0..=r)).prop_map(|(receivers, unblocks)| TimeCase::Unblock { receivers, unblocks }),
        1 => (1usize..50).prop_map(|n| TimeCase::Try { n }),
    ]
    .boxed()
}

pub fn c17_time_test(_w: &mut (), c: &TimeCase) -> Verdict {
    match c {
        TimeCase::Timed { ms, tcp } => {
            let server = if *tcp {
                tiny_http::Server::http("127.0.0.1:0").expect("bind")
            } else {
                let p = format!("{}/target/tmp/c17-{}-{:?}.sock", vcore::report::verif_root(), std::process::id(), std::thread::current().id());
                let _ = std::fs::remove_file(&p);
                tiny_http::Server::http_unix(std::path::Path::new(&p)).expect("bind unix")
            };
            let t = Duration::from_millis(*ms);
            let mut worst_late = Duration::ZERO;
            // the upper bound is re-measured: a descheduled harness thread is not the library's fault
            for attempt in 0..3 {
                let t0 = Instant::now();
                let r = server.recv_timeout(t);
                let el = t0.elapsed();
                match r {
                    Ok(None) => {}
                    Ok(Some(_)) => return fail("C17/real/recv_timeout-returned-a-request-on-idle-server", "".to_string()),
                    Err(e) => return fail("C17/real/recv_timeout-error-on-idle-server", format!("{:?}", e.kind())),
                }
                // lower bound is deterministic by construction of the wait
                if el + Duration::from_micros(1200) < t {
                    return fail("C17/real/recv_timeout-too-early", format!("recv_timeout({} ms) returned empty-handed after {:?}", ms, el));
                }
                let late = el.saturating_sub(t * 2);
                if late <= Duration::from_secs(1) {
                    worst_late = Duration::ZERO;
                    break;
                }
                worst_late = late;
                let _ = attempt;
            }
            if worst_late > Duration::ZERO {
                return fail("C17/real/recv_timeout-too-late", format!("recv_timeout({} ms) took 2T + {:?} in three attempts", ms, worst_late));
            }
            let g = if *ms > 0 { Good::nontrivial() } else { Good::trivial() };
            Verdict::Pass(g.class(format!("T={}ms", ms)))
        }
        TimeCase::Try { n } => {
            let server = tiny_http::Server::http("127.0.0.1:0").expect("bind");
            let t0 = Instant::now();
            for _ in 0..*n {
                match server.try_recv() {
                    Ok(None) => {}
                    other => return fail("C17/real/try_recv-on-idle-server", format!("{:?}", other.map(|o| o.is_some()).map_err(|e| e.kind()))),
                }
            }
            if t0.elapsed() > Duration::from_secs(2) {
                return Verdict::Inconclusive(format!("{} try_recv calls took {:?}", n, t0.elapsed()));
            }
            Verdict::Pass(Good::trivial().class("try_recv"))
        }
        TimeCase::Unblock { receivers, unblocks } => {
            let server = Arc::new(tiny_http::Server::http("127.0.0.1:0").expect("bind"));
            let errs = Arc::new(std::sync::atomic::AtomicUsize::new(0));
            let started = Arc::new(std::sync::atomic::AtomicUsize::new(0));
            let mut hs = vec![];
            for _ in 0..*receivers {
                let (s, e, st) = (server.clone(), errs.clone(), started.clone());
                hs.push(std::thread::spawn(move || {
                    st.fetch_add(1, std::sync::atomic::Ordering::SeqCst);
                    if s.recv().is_err() {
                        e.fetch_add(1, std::sync::atomic::Ordering::SeqCst);
                    }
                }));
            }
            while started.load(std::sync::atomic::Ordering::SeqCst) < *receivers {
                std::thread::yield_now();
            }
            std::thread::sleep(Duration::from_millis(3));
            for _ in 0..*unblocks {
                server.unblock();
            }
            // exactly `unblocks` receivers come back; more is wrong at once, fewer only after a wait
            let t0 = Instant::now();
            let mut verdict = None;
            loop {
                let e = errs.load(std::sync::atomic::Ordering::SeqCst);
                if e > *unblocks {
                    verdict = Some(fail("C17/real/more-receivers-released-than-unblock-calls", format!("{} unblock() calls released {} of {} receivers", unblocks, e, receivers)));
                    break;
                }
                if e == *unblocks && t0.elapsed() > Duration::from_millis(30) {
                    break;
                }
                if t0.elapsed() > Duration::from_secs(10) {
                    verdict = Some(Verdict::Inconclusive(format!("only {} of {} receivers released after 10 s", e, unblocks)));
                    break;
                }
                std::thread::sleep(Duration::from_millis(1));
            }
            for _ in *unblocks..*receivers {
                server.unblock();
            }
            for h in hs {
                let _ = h.join();
            }
            if let Some(v) = verdict {
                return v;
            }
            let g = if *unblocks > 0 { Good::nontrivial() } else { Good::trivial() };
            Verdict::Pass(g.class(format!("receivers={}", receivers)).class(format!("unblocks={}", unblocks)))
        }
    }
}

// ------------------------------------------------------------------------------------------
// C20 in real time

#[derive(Clone, Debug, Serialize, Deserialize)]
pub struct RealShutdown {
    pub tcp: bool,
    /// which address a TCP server listens on: 0 127.0.0.1, 1 127.0.0.2, 2 [::1], 3 0.0.0.0
    #[serde(default)]
    pub addr: u8,
    pub burst: usize,
    /// hold a request across the drop and answer it afterwards
    pub hold: bool,
    /// connections that have each sent one request which nobody has received when the server is
    /// dropped; they close afterwards
    #[serde(default)]
    pub queued_at_drop: usize,
}

pub fn c20_real_strategy() -> BoxedStrategy<RealShutdown> {
    (any::<bool>(), 0u8..4, prop_oneof![Just(24usize), 6usize..40], any::<bool>()).prop_map(|(tcp, addr, burst, hold)| RealShutdown { tcp, addr, burst, hold, queued_at_drop: if burst % 2 == 0 { 14 } else { 0 } }).boxed()
}

fn thread_count() -> usize {
    std::fs::read_dir("/proc/self/task").map(|d| d.count()).unwrap_or(0)
}

enum Cs {
    T(std::net::TcpStream),
    U(std::os::unix::net::UnixStream),
}
impl Cs {
    fn w(&mut self, b: &[u8]) -> std::io::Result<()> {
        match self {
            Cs::T(s) => s.write_all(b),
            Cs::U(s) => s.write_all(b),
        }
    }
    fn read_all(&mut self, limit: Duration) -> Vec<u8> {
        match self {
            Cs::T(s) => {
                let _ = s.set_read_timeout(Some(limit));
            }
            Cs::U(s) => {
                let _ = s.set_read_timeout(Some(limit));
            }
        }
        let mut v = vec![];
        let mut b = [0u8; 4096];
        loop {
            let r = match self {
                Cs::T(s) => s.read(&mut b),
                Cs::U(s) => s.read(&mut b),
            };
            match r {
                Ok(0) | Err(_) => break,
                Ok(n) => v.extend_from_slice(&b[..n]),
            }
        }
        v
    }
}

pub fn c20_real_test(_w: &mut (), c: &RealShutdown) -> Verdict {
    let base = thread_count();
    let path = format!("{}/target/tmp/c20-{}.sock", vcore::report::verif_root(), std::process::id());
    let _ = std::fs::remove_file(&path);
    let bind_to = ["127.0.0.1:0", "127.0.0.2:0", "[::1]:0", "0.0.0.0:0"][c.addr as usize % 4];
    let server = if c.tcp {
        match tiny_http::Server::http(bind_to) {
            Ok(s) => s,
            // (no IPv6 loopback in this sandbox, …)
            Err(_) => tiny_http::Server::http("127.0.0.1:0").expect("bind"),
        }
    } else {
        tiny_http::Server::http_unix(std::path::Path::new(&path)).expect("bind unix")
    };
    let addr = server.server_addr();
    let connect = |_: ()| -> std::io::Result<Cs> {
        match &addr {
            tiny_http::ListenAddr::IP(a) => {
                // a wildcard listener is reached through the loopback address
                let mut a = *a;
                if a.ip().is_unspecified() {
                    a.set_ip(std::net::IpAddr::V4(std::net::Ipv4Addr::LOCALHOST));
                }
                std::net::TcpStream::connect_timeout(&a, Duration::from_secs(2)).map(Cs::T)
            }
            tiny_http::ListenAddr::Unix(_) => std::os::unix::net::UnixStream::connect(&path).map(Cs::U),
        }
    };
    // burst: all connections open at once, one request each, all answered, then closed
    let mut conns = vec![];
    for i in 0..c.burst {
        match connect(()) {
            Ok(mut s) => {
                let _ = s.w(format!("GET /b{} HTTP/1.1\r\nHost: h\r\nConnection: close\r\n\r\n", i).as_bytes());
                conns.push(s);
            }
            Err(e) => return Verdict::Inconclusive(format!("connect failed during burst: {}", e)),
        }
    }
    let mut answered = 0;
    let t0 = Instant::now();
    while answered < c.burst && t0.elapsed() < Duration::from_secs(20) {
        if let Ok(Some(rq)) = server.recv_timeout(Duration::from_millis(100)) {
            let _ = rq.respond(tiny_http::Response::from_string("x"));
            answered += 1;
        }
    }
    if answered < c.burst {
        return Verdict::Inconclusive(format!("only {} of {} burst requests arrived in 20 s", answered, c.burst));
    }
    for mut s in conns {
        let got = s.read_all(Duration::from_secs(5));
        if !got.starts_with(b"HTTP/1.1 200") {
            return fail("C20/real/burst-response-missing", format!("{:?}", vcore::resp::head_preview(&got)));
        }
    }
    let peak = thread_count();
    // idle for the idle period (5 s) plus margin; then the surplus workers must be gone
    std::thread::sleep(Duration::from_millis(6200));
    let mut now = thread_count();
    let t1 = Instant::now();
    while now > base + 5 && t1.elapsed() < Duration::from_secs(6) {
        std::thread::sleep(Duration::from_millis(200));
        now = thread_count();
    }
    if now > base + 5 {
        return fail("C20/real/threads-not-reclaimed", format!("threads: {} before the server, {} at the peak of a burst of {}, still {} more than 12 s after it (expected <= accept + 4 above the baseline)", base, peak, c.burst, now));
    }
    // the next burst is still served
    {
        let mut s = match connect(()) {
            Ok(s) => s,
            Err(e) => return fail("C20/real/not-serving-after-idle", format!("{}", e)),
        };
        let _ = s.w(b"GET /after HTTP/1.1\r\nHost: h\r\nConnection: close\r\n\r\n");
        match server.recv_timeout(Duration::from_secs(10)) {
            Ok(Some(rq)) => {
                let _ = rq.respond(tiny_http::Response::from_string("y"));
            }
            _ => return Verdict::Inconclusive("request after the idle phase did not arrive in 10 s".into()),
        }
        let got = s.read_all(Duration::from_secs(5));
        if !got.starts_with(b"HTTP/1.1 200") {
            return fail("C20/real/not-serving-after-idle", format!("{:?}", vcore::resp::head_preview(&got)));
        }
    }
    // drop, optionally with a request handed to the application
    let mut held = None;
    let mut held_conn = None;
    if c.hold {
        let mut s = match connect(()) {
            Ok(s) => s,
            Err(e) => return Verdict::Inconclusive(format!("connect: {}", e)),
        };
        let _ = s.w(b"GET /held HTTP/1.1\r\nHost: h\r\n\r\n");
        match server.recv_timeout(Duration::from_secs(10)) {
            Ok(Some(rq)) => held = Some(rq),
            _ => return Verdict::Inconclusive("held request did not arrive".into()),
        }
        held_conn = Some(s);
    }
    let mut queued = vec![];
    for k in 0..c.queued_at_drop {
        if let Ok(mut s) = connect(()) {
            let _ = s.w(format!("GET /queued{} HTTP/1.1\r\nHost: h\r\n\r\n", k).as_bytes());
            queued.push(s);
        }
    }
    if !queued.is_empty() {
        // (time for the connections' workers to parse and queue them)
        std::thread::sleep(Duration::from_millis(300));
    }
    drop(server);
    // "within a short bounded time new connection attempts are refused": stay quiet for a while
    // (a probing client would itself wake a sleeping accept loop), then the FIRST attempt counts
    // a helper thread shows that this process does get scheduled during the quiet period
    let alive = Arc::new(std::sync::atomic::AtomicBool::new(false));
    let a2 = alive.clone();
    let h = std::thread::spawn(move || a2.store(true, std::sync::atomic::Ordering::SeqCst));
    std::thread::sleep(Duration::from_millis(3000));
    let _ = h.join();
    let refused = connect(()).is_err();
    if !refused {
        if !alive.load(std::sync::atomic::Ordering::SeqCst) {
            return Verdict::Inconclusive("process not scheduled for 3 s".into());
        }
        return fail("C20/real/accepting-after-drop", format!("the first connection attempt to {} is still accepted 3 s after the server was dropped", addr));
    }
    if !c.tcp && std::path::Path::new(&path).exists() {
        return fail("C20/real/unix-path-not-removed", path);
    }
    if let (Some(rq), Some(mut s)) = (held, held_conn) {
        if let Err(e) = rq.respond(tiny_http::Response::from_string("late")) {
            return fail("C20/real/respond-after-drop-failed", format!("{:?}", e.kind()));
        }
        let _ = match &s {
            Cs::T(t) => t.shutdown(std::net::Shutdown::Write),
            Cs::U(u) => u.shutdown(std::net::Shutdown::Write),
        };
        let got = s.read_all(Duration::from_secs(5));
        if !got.starts_with(b"HTTP/1.1 200") || !got.ends_with(b"late") {
            return fail("C20/real/answer-after-drop-lost", format!("{:?}", vcore::resp::head_preview(&got)));
        }
    }
    drop(queued);
    // the server is gone and so are its clients: the accept thread ends and the workers, all of
    // them idle now, retire after the idle period — nothing of the server stays behind
    let t2 = Instant::now();
    let mut left = thread_count();
    while left > base && t2.elapsed() < Duration::from_secs(9) {
        std::thread::sleep(Duration::from_millis(200));
        left = thread_count();
    }
    if left > base {
        return fail(format!("C20/real/threads-left-after-drop/{}", if c.tcp { "tcp" } else { "unix" }), format!("threads: {} before the server existed, still {} more than 9 s after it was dropped and its last client had gone", base, left));
    }
    Verdict::Pass(Good::nontrivial().class(if c.tcp { format!("tcp:{}", bind_to) } else { "unix".to_string() }).class_if(c.hold, "request-held-across-drop").class_if(c.queued_at_drop > 0, "unreceived-requests-queued-at-the-drop").class(format!("peak-threads-above-baseline={}", (peak.saturating_sub(base)).min(64))))
}

// ------------------------------------------------------------------------------------------
// C08 over real sockets: idle / stalled connections must not hold up the others.
// Only positive, re-measured evidence counts: a complete request gets no answer for 5 s while the
// idle connections are open, and gets it once they are closed — twice in a row, on fresh servers.

#[derive(Clone, Debug, Serialize, Deserialize)]
pub struct IdleCase {
    pub tcp: bool,
    /// connections that are open and silent (0 bytes) or stalled in the middle of a head
    pub idle: usize,
    pub idle_partial: bool,
    /// connections that send a complete request while the idle ones stay open
    pub active: usize,
}

pub fn c08_real_strategy() -> BoxedStrategy<IdleCase> {
    (any::<bool>(), 1usize..=6, any::<bool>(), 1usize..=6).prop_map(|(tcp, idle, idle_partial, active)| IdleCase { tcp, idle, idle_partial, active }).boxed()
}

/// Some(true): every active connection was answered while the idle ones were open.
/// Some(false): some active connection was answered only after the idle ones had been closed.
/// None: inconclusive.
fn c08_experiment(c: &IdleCase) -> Option<bool> {
    let path = format!("{}/target/tmp/c08-{}-{:?}.sock", vcore::report::verif_root(), std::process::id(), std::thread::current().id());
    let _ = std::fs::remove_file(&path);
    let server = if c.tcp { tiny_http::Server::http("127.0.0.1:0").ok()? } else { tiny_http::Server::http_unix(std::path::Path::new(&path)).ok()? };
    let addr = server.server_addr();
    let connect = || -> std::io::Result<Cs> {
        match &addr {
            tiny_http::ListenAddr::IP(a) => std::net::TcpStream::connect_timeout(a, Duration::from_secs(2)).map(Cs::T),
            tiny_http::ListenAddr::Unix(_) => std::os::unix::net::UnixStream::connect(&path).map(Cs::U),
        }
    };
    let mut idle = vec![];
    for _ in 0..c.idle {
        let mut s = connect().ok()?;
        if c.idle_partial {
            let _ = s.w(b"GET /idle HTTP/1.1\r\nHo");
        }
        idle.push(s);
    }
    std::thread::sleep(Duration::from_millis(30));
    let mut active = vec![];
    for i in 0..c.active {
        let mut s = connect().ok()?;
        let _ = s.w(format!("GET /a{} HTTP/1.1\r\nHost: h\r\nConnection: close\r\n\r\n", i).as_bytes());
        active.push(s);
    }
    let mut answered = 0usize;
    let t0 = Instant::now();
    while answered < c.active && t0.elapsed() < Duration::from_secs(5) {
        if let Ok(Some(rq)) = server.recv_timeout(Duration::from_millis(50)) {
            if rq.url().starts_with("/a") {
                answered += 1;
            }
            let _ = rq.respond(tiny_http::Response::from_string("ok"));
        }
    }
    if answered == c.active {
        // finish the idle ones too
        for s in idle.iter_mut() {
            let _ = s.w(if c.idle_partial { b"st: h\r\nConnection: close\r\n\r\n".as_slice() } else { b"GET /idle HTTP/1.1\r\nHost: h\r\nConnection: close\r\n\r\n".as_slice() });
        }
        let t1 = Instant::now();
        let mut done = 0;
        while done < c.idle && t1.elapsed() < Duration::from_secs(5) {
            if let Ok(Some(rq)) = server.recv_timeout(Duration::from_millis(50)) {
                done += 1;
                let _ = rq.respond(tiny_http::Response::from_string("ok"));
            }
        }
        return Some(true);
    }
    // the intervention: close the idle connections; does the missing answer come now?
    drop(idle);
    let t2 = Instant::now();
    while answered < c.active && t2.elapsed() < Duration::from_secs(5) {
        if let Ok(Some(rq)) = server.recv_timeout(Duration::from_millis(50)) {
            if rq.url().starts_with("/a") {
                answered += 1;
            }
            let _ = rq.respond(tiny_http::Response::from_string("ok"));
        }
    }
    if answered == c.active {
        Some(false)
    } else {
        None
    }
}

pub fn c08_real_test(_w: &mut (), c: &IdleCase) -> Verdict {
    let t0 = Instant::now();
    let mut first = c08_experiment(c);
    if first.is_none() && t0.elapsed() < Duration::from_secs(9) {
        // the scenario could not be set up (bind / connect refused by the environment): says nothing
        return Verdict::Pass(Good::trivial().class("scenario-not-set-up"));
    }
    if first.is_none() {
        // nobody was answered for 10 s either way: once more before giving up on the case
        let t1 = Instant::now();
        first = c08_experiment(c);
        if first.is_none() && t1.elapsed() < Duration::from_secs(9) {
            return Verdict::Pass(Good::trivial().class("scenario-not-set-up"));
        }
    }
    match first {
        Some(true) => Verdict::Pass(if c.idle + c.active >= 5 { Good::nontrivial() } else { Good::trivial() }.class(if c.tcp { "tcp" } else { "unix" }).class(if c.idle_partial { "idle:partial-head" } else { "idle:silent" })),
        None => Verdict::Inconclusive("an active connection was not answered within 10 s, with or without the idle connections".into()),
        Some(false) => match c08_experiment(c) {
            Some(false) => fail(
                if c.idle_partial { "C08/real/request-waits-for-stalled-connection-to-end" } else { "C08/real/request-waits-for-silent-connection-to-end" },
                format!("twice in a row ({} idle + {} active connections, {}): a complete request got no answer for 5 s while the idle connections were open and was answered once they had been closed", c.idle, c.active, if c.tcp { "TCP" } else { "UNIX" }),
            ),
            _ => Verdict::Pass(Good::trivial().class("slow-once-not-repeated")),
        },
    }
}

// ------------------------------------------------------------------------------------------
// C07 with real threads and the real clock: a request pushed while a timed receiver is about to
// give up must still reach the receiver that stays blocked (corroborates the virtual-time part
// against std's own condition variable)

#[derive(Clone, Debug, Serialize, Deserialize)]
pub struct RealEdge {
    /// timeout of the one-shot timed receiver, ms
    pub timeout_ms: u64,
    /// the request is written this many microseconds before the timeout runs out
    pub before_us: u64,
    /// the blocking receiver enters recv() this many ms after the timed one
    pub stagger_ms: u64,
    pub tcp: bool,
}

pub fn c07_real_edge_strategy() -> BoxedStrategy<RealEdge> {
    // (u64::MAX stands for Duration::MAX: "no limit, but unblock() may end the call")
    (prop_oneof![2 => Just(1u64), 2 => Just(2u64), 2 => Just(20u64), 2 => Just(40u64), 1 => Just(u64::MAX)], prop_oneof![Just(150u64), Just(400u64), Just(700u64), Just(1200u64), Just(3000u64)], 0u64..4, any::<bool>())
        .prop_map(|(timeout_ms, before_us, stagger_ms, tcp)| RealEdge { timeout_ms, before_us, stagger_ms: stagger_ms.min(timeout_ms / 2), tcp })
        .boxed()
}

pub fn c07_real_edge_test(_w: &mut (), c: &RealEdge) -> Verdict {
    use std::sync::atomic::{AtomicBool, AtomicUsize, Ordering};
    let dir = format!("{}/target/tmp", vcore::report::verif_root());
    let _ = std::fs::create_dir_all(&dir);
    let path = format!("{}/c07edge-{}-{:?}.sock", dir, std::process::id(), std::thread::current().id()).replace(['(', ')'], "");
    let _ = std::fs::remove_file(&path);
    let server = if c.tcp { tiny_http::Server::http("127.0.0.1:0") } else { tiny_http::Server::http_unix(std::path::Path::new(&path)) };
    let Ok(server) = server else { return Verdict::Pass(Good::trivial().class("scenario-not-set-up")) };
    let server = Arc::new(server);
    enum Cl {
        T(std::net::TcpStream),
        U(std::os::unix::net::UnixStream),
    }
    let cl = if c.tcp { std::net::TcpStream::connect(server.server_addr().to_ip().unwrap()).map(Cl::T) } else { std::os::unix::net::UnixStream::connect(&path).map(Cl::U) };
    let Ok(mut cl) = cl else { return Verdict::Pass(Good::trivial().class("scenario-not-set-up")) };
    // let the connection reach its worker
    std::thread::sleep(Duration::from_millis(30));
    let got = Arc::new(AtomicUsize::new(0));
    let a_back = Arc::new(AtomicBool::new(false));
    let a_empty = Arc::new(AtomicBool::new(false));
    let b_back = Arc::new(AtomicBool::new(false));
    let answer = |rq: tiny_http::Request| {
        let _ = rq.respond(tiny_http::Response::from_string("ok"));
    };
    let t0 = Instant::now();
    let forever = c.timeout_ms == u64::MAX;
    let timeout = if forever { Duration::MAX } else { Duration::from_millis(c.timeout_ms) };
    let ta = {
        let (s, got, a_back, a_empty) = (server.clone(), got.clone(), a_back.clone(), a_empty.clone());
        std::thread::spawn(move || {
            match s.recv_timeout(timeout) {
                Ok(Some(rq)) => {
                    got.fetch_add(1, Ordering::SeqCst);
                    answer(rq);
                }
                _ => a_empty.store(true, Ordering::SeqCst),
            }
            a_back.store(true, Ordering::SeqCst);
        })
    };
    std::thread::sleep(Duration::from_millis(c.stagger_ms));
    let tb = {
        let (s, got, b_back) = (server.clone(), got.clone(), b_back.clone());
        std::thread::spawn(move || {
            if let Ok(rq) = s.recv() {
                got.fetch_add(1, Ordering::SeqCst);
                answer(rq);
            }
            b_back.store(true, Ordering::SeqCst);
        })
    };
    // write the request shortly before the timed receiver's timeout runs out
    let at = if forever { Duration::from_millis(8) } else { timeout.saturating_sub(Duration::from_micros(c.before_us)) };
    while t0.elapsed() < at {
        std::hint::spin_loop();
    }
    let rq_bytes = b"GET /edge HTTP/1.1\r\nHost: h\r\n\r\n";
    let _ = match &mut cl {
        Cl::T(s) => s.write_all(rq_bytes),
        Cl::U(s) => s.write_all(rq_bytes),
    };
    // the request must reach one of the two receivers
    let t1 = Instant::now();
    while got.load(Ordering::SeqCst) == 0 && t1.elapsed() < Duration::from_secs(3) {
        std::thread::sleep(Duration::from_millis(2));
    }
    let delivered = got.load(Ordering::SeqCst) > 0;
    let mut verdict = None;
    if !delivered {
        // is it queued while the blocking receiver is still blocked?
        let b_blocked = !b_back.load(Ordering::SeqCst);
        match server.try_recv() {
            Ok(Some(rq)) if b_blocked => {
                answer(rq);
                verdict = Some(fail("C07/real/request-queued-while-a-receiver-stays-blocked", format!("recv_timeout({} ms) came back empty-handed, the request written {} us before its deadline stayed queued for 3 s while another thread was blocked in recv()", c.timeout_ms, c.before_us)));
            }
            Ok(Some(rq)) => answer(rq),
            _ => {}
        }
    }
    // teardown: release the blocking receiver if it is still there
    if !b_back.load(Ordering::SeqCst) {
        server.unblock();
    }
    if forever {
        // the receiver without a limit: released by unblock() like a recv()
        let t3 = Instant::now();
        while !(a_back.load(Ordering::SeqCst) && b_back.load(Ordering::SeqCst)) && t3.elapsed() < Duration::from_secs(3) {
            server.unblock();
            std::thread::sleep(Duration::from_millis(5));
        }
        if !a_back.load(Ordering::SeqCst) {
            verdict = verdict.or(Some(fail("C07/real/receive-without-limit-never-returned", "recv_timeout(Duration::MAX) was neither given the request nor released by unblock() within 3 s".to_string())));
            // (its thread cannot be joined)
            drop(cl);
            let _ = std::fs::remove_file(&path);
            return verdict.unwrap();
        }
    }
    let _ = ta.join();
    let t2 = Instant::now();
    while !b_back.load(Ordering::SeqCst) && t2.elapsed() < Duration::from_secs(3) {
        std::thread::sleep(Duration::from_millis(2));
    }
    if b_back.load(Ordering::SeqCst) {
        let _ = tb.join();
    }
    drop(cl);
    drop(server);
    let _ = std::fs::remove_file(&path);
    if let Some(v) = verdict {
        return v;
    }
    let edge = a_empty.load(Ordering::SeqCst) && delivered;
    Verdict::Pass(if edge { Good::nontrivial() } else { Good::trivial() }.class(if c.tcp { "tcp" } else { "unix" }).class_if(edge, "timed-receiver-gave-up-and-the-blocking-one-got-the-request").class_if(!a_empty.load(Ordering::SeqCst), "timed-receiver-got-the-request"))
}

// ------------------------------------------------------------------------------------------
// C08 with a handler that is slow *inside* respond(): connection A's response body comes from a
// reader that only continues once connection B has its answer.  B must not wait for A's handler.

#[derive(Clone, Debug, Serialize, Deserialize)]
pub struct SlowBody {
    pub tcp: bool,
    /// request line version of A: 0 = HTTP/1.0 (identity, body buffered for its length), 1 =
    /// HTTP/1.1 with `TE: identity`, 2 = plain HTTP/1.1 (chunked streaming)
    pub a_kind: u8,
    /// A's response declares its length
    pub declared: bool,
    /// the reader stalls before its first byte (else after the first few)
    pub stall_at_start: bool,
}

pub fn c08_slow_strategy() -> BoxedStrategy<SlowBody> {
    (any::<bool>(), 0u8..3, proptest::bool::weighted(0.3), any::<bool>()).prop_map(|(tcp, a_kind, declared, stall_at_start)| SlowBody { tcp, a_kind, declared, stall_at_start }).boxed()
}

struct GateReader {
    gate: Arc<std::sync::atomic::AtomicBool>,
    entered: Arc<std::sync::atomic::AtomicBool>,
    given: usize,
    stall_at: usize,
    total: usize,
    timed_out: Arc<std::sync::atomic::AtomicBool>,
}

impl Read for GateReader {
    fn read(&mut self, buf: &mut [u8]) -> std::io::Result<usize> {
        use std::sync::atomic::Ordering;
        if self.given >= self.total || buf.is_empty() {
            return Ok(0);
        }
        if self.given == self.stall_at {
            self.entered.store(true, Ordering::SeqCst);
            let t0 = Instant::now();
            while !self.gate.load(Ordering::SeqCst) {
                if t0.elapsed() > Duration::from_secs(4) {
                    self.timed_out.store(true, Ordering::SeqCst);
                    break;
                }
                std::thread::sleep(Duration::from_millis(2));
            }
        }
        let n = if self.given < self.stall_at { (self.stall_at - self.given).min(buf.len()) } else { (self.total - self.given).min(buf.len()) };
        for b in buf[..n].iter_mut() {
            *b = b'a';
        }
        self.given += n;
        Ok(n)
    }
}

fn c08_slow_experiment(c: &SlowBody) -> Option<(bool, u128)> {
    use std::sync::atomic::{AtomicBool, Ordering};
    let dir = format!("{}/target/tmp", vcore::report::verif_root());
    let _ = std::fs::create_dir_all(&dir);
    let path = format!("{}/c08slow-{}-{:?}.sock", dir, std::process::id(), std::thread::current().id()).replace(['(', ')'], "");
    let _ = std::fs::remove_file(&path);
    let server = if c.tcp { tiny_http::Server::http("127.0.0.1:0") } else { tiny_http::Server::http_unix(std::path::Path::new(&path)) }.ok()?;
    let server = Arc::new(server);
    let addr = server.server_addr().to_ip();
    let connect = |req: &[u8]| -> Option<Box<dyn ReadWriteTimeout>> {
        if c.tcp {
            let mut s = std::net::TcpStream::connect(addr?).ok()?;
            s.set_read_timeout(Some(Duration::from_secs(8))).ok()?;
            s.write_all(req).ok()?;
            Some(Box::new(s))
        } else {
            let mut s = std::os::unix::net::UnixStream::connect(&path).ok()?;
            s.set_read_timeout(Some(Duration::from_secs(8))).ok()?;
            s.write_all(req).ok()?;
            Some(Box::new(s))
        }
    };
    let a_req: &[u8] = match c.a_kind {
        0 => b"GET /slow HTTP/1.0\r\nHost: h\r\n\r\n",
        1 => b"GET /slow HTTP/1.1\r\nHost: h\r\nTE: identity\r\n\r\n",
        _ => b"GET /slow HTTP/1.1\r\nHost: h\r\n\r\n",
    };
    let gate = Arc::new(AtomicBool::new(false));
    let entered = Arc::new(AtomicBool::new(false));
    let timed_out = Arc::new(AtomicBool::new(false));
    let mut handlers = vec![];
    for _ in 0..2 {
        let (s, gate, entered, timed_out, declared, stall0) = (server.clone(), gate.clone(), entered.clone(), timed_out.clone(), c.declared, c.stall_at_start);
        handlers.push(std::thread::spawn(move || {
            while let Ok(Some(rq)) = s.recv_timeout(Duration::from_secs(6)) {
                if rq.url() == "/slow" {
                    let total = 5000;
                    let r = GateReader { gate: gate.clone(), entered: entered.clone(), given: 0, stall_at: if stall0 { 0 } else { 10 }, total, timed_out: timed_out.clone() };
                    let _ = rq.respond(tiny_http::Response::new(tiny_http::StatusCode(200), vec![], r, if declared { Some(total) } else { None }, None));
                    break;
                } else {
                    // B is answered only once A's response is under way
                    let t0 = Instant::now();
                    while !entered.load(Ordering::SeqCst) && t0.elapsed() < Duration::from_secs(3) {
                        std::thread::sleep(Duration::from_millis(1));
                    }
                    let _ = rq.respond(tiny_http::Response::from_string("quick"));
                    break;
                }
            }
        }));
    }
    let mut a = connect(a_req)?;
    let mut b = connect(b"GET /quick HTTP/1.1\r\nHost: h\r\nConnection: close\r\n\r\n")?;
    let t0 = Instant::now();
    let mut got = vec![];
    let mut buf = [0u8; 512];
    let mut b_ok = false;
    loop {
        match b.read(&mut buf) {
            Ok(0) => break,
            Ok(n) => {
                got.extend_from_slice(&buf[..n]);
                if got.windows(5).any(|w| w == b"quick") {
                    b_ok = true;
                    break;
                }
            }
            Err(_) => break,
        }
    }
    let b_ms = t0.elapsed().as_millis();
    let a_was_under_way = entered.load(Ordering::SeqCst);
    let waited_for_a = timed_out.load(Ordering::SeqCst);
    gate.store(true, Ordering::SeqCst);
    // let A's response go out (the head at least), then end everything
    let mut sink = [0u8; 4096];
    let _ = a.read(&mut sink);
    drop(a);
    drop(b);
    for h in handlers {
        let _ = h.join();
    }
    drop(server);
    let _ = std::fs::remove_file(&path);
    if !a_was_under_way {
        return None;
    }
    // B answered while A's reader was still stalled = independent; B answered only after the gate timed out = B waited for A
    Some((b_ok && !waited_for_a, b_ms))
}

trait ReadWriteTimeout: Read + Write + Send {}
impl ReadWriteTimeout for std::net::TcpStream {}
impl ReadWriteTimeout for std::os::unix::net::UnixStream {}

pub fn c08_slow_test(_w: &mut (), c: &SlowBody) -> Verdict {
    let classes = |g: Good| g.class(if c.tcp { "tcp" } else { "unix" }).class(["a:http10", "a:te-identity", "a:http11"][c.a_kind as usize % 3]).class(if c.declared { "declared-length" } else { "unknown-length" });
    match c08_slow_experiment(c) {
        None => Verdict::Pass(classes(Good::trivial()).class("scenario-not-set-up")),
        Some((true, _)) => Verdict::Pass(classes(Good::nontrivial())),
        Some((false, ms)) => match c08_slow_experiment(c) {
            Some((false, ms2)) => fail("C08/real/answer-waits-for-another-connections-response-body", format!("twice in a row: connection B's answer ('quick') arrived only after {} / {} ms, when the stalled body reader of connection A's response gave up after 4 s; B's handler had called respond() while A's was inside respond()", ms, ms2)),
            _ => Verdict::Pass(classes(Good::trivial()).class("slow-once-not-repeated")),
        },
    }
}

// ------------------------------------------------------------------------------------------
// C02, peer address: connections that sent a complete request and were reset before the server
// accepted them (getpeername fails on those), beside ordinary ones.  Whatever is delivered over
// TCP carries its client's socket address.

#[derive(Clone, Debug, Serialize, Deserialize)]
pub struct ResetBeforeAccept {
    pub resets: usize,
    pub live: usize,
}

pub fn c02_reset_strategy() -> BoxedStrategy<ResetBeforeAccept> {
    (1usize..5, 1usize..3).prop_map(|(resets, live)| ResetBeforeAccept { resets, live }).boxed()
}

pub fn c02_reset_test(_w: &mut (), c: &ResetBeforeAccept) -> Verdict {
    use std::os::unix::io::AsRawFd;
    let Ok(listener) = std::net::TcpListener::bind("127.0.0.1:0") else { return Verdict::Pass(Good::trivial().class("scenario-not-set-up")) };
    let Ok(addr) = listener.local_addr() else { return Verdict::Pass(Good::trivial().class("scenario-not-set-up")) };
    let mut sent: Vec<(String, String)> = vec![]; // (url, client address)
    for i in 0..c.resets {
        let Ok(mut s) = std::net::TcpStream::connect(addr) else { continue };
        let url = format!("/reset/{}", i);
        if let Ok(a) = s.local_addr() {
            sent.push((url.clone(), a.to_string()));
        }
        let _ = s.write_all(format!("GET {} HTTP/1.1\r\nHost: h\r\n\r\n", url).as_bytes());
        let l = libc::linger { l_onoff: 1, l_linger: 0 };
        unsafe {
            libc::setsockopt(s.as_raw_fd(), libc::SOL_SOCKET, libc::SO_LINGER, &l as *const _ as *const libc::c_void, std::mem::size_of::<libc::linger>() as libc::socklen_t);
        }
        drop(s); // RST while nobody has accepted the connection
    }
    let mut live = vec![];
    for j in 0..c.live {
        let Ok(mut s) = std::net::TcpStream::connect(addr) else { continue };
        let url = format!("/live/{}", j);
        if let Ok(a) = s.local_addr() {
            sent.push((url.clone(), a.to_string()));
        }
        let _ = s.write_all(format!("GET {} HTTP/1.1\r\nHost: h\r\n\r\n", url).as_bytes());
        live.push(s);
    }
    std::thread::sleep(Duration::from_millis(20));
    let Ok(server) = tiny_http::Server::from_listener(listener, None) else { return Verdict::Pass(Good::trivial().class("scenario-not-set-up")) };
    let mut delivered: Vec<(String, Option<String>)> = vec![];
    let t0 = Instant::now();
    while t0.elapsed() < Duration::from_secs(3) {
        match server.recv_timeout(Duration::from_millis(250)) {
            Ok(Some(rq)) => {
                delivered.push((rq.url().to_string(), rq.remote_addr().map(|a| a.to_string())));
                let _ = rq.respond(tiny_http::Response::from_string("ok"));
            }
            Ok(None) => {
                if delivered.iter().filter(|d| d.0.starts_with("/live/")).count() >= live.len() {
                    break;
                }
            }
            Err(_) => break,
        }
    }
    drop(live);
    drop(server);
    for (url, peer) in &delivered {
        let want = sent.iter().find(|s| &s.0 == url).map(|s| s.1.clone());
        match (peer, want) {
            (None, _) => return fail("C02/real/tcp-request-without-peer-address", format!("request {:?} was delivered over TCP with remote_addr() = None (its connection had been reset before it was accepted)", url)),
            (Some(p), Some(w)) if *p != w => return fail("C02/real/wrong-peer-address", format!("request {:?}: remote_addr() = {}, the client's socket address is {}", url, p, w)),
            _ => {}
        }
    }
    let any_reset_delivered = delivered.iter().any(|d| d.0.starts_with("/reset/"));
    let all_live = delivered.iter().filter(|d| d.0.starts_with("/live/")).count() >= c.live;
    Verdict::Pass(if all_live { Good::nontrivial() } else { Good::trivial() }.class(format!("resets={}", c.resets)).class_if(any_reset_delivered, "request-of-a-reset-connection-delivered").class_if(!all_live, "live-request-missing"))
}

// ------------------------------------------------------------------------------------------
// C13 through the whole server over real sockets: the same pipeline once written in one piece
// while the application has not started receiving yet, once one request at a time with the
// application receiving all along.  What the application gets and what the client reads is the same.

#[derive(Clone, Debug, Serialize, Deserialize)]
pub struct BurstVsPaced {
    pub tcp: bool,
    pub requests: usize,
    /// ms the application waits before its first recv in the burst run
    pub app_delay_ms: u64,
    /// true: one application thread per request, each blocked in recv() before the client sends
    /// anything and each taking exactly one request
    #[serde(default)]
    pub one_shot_receivers: bool,
}

pub fn c13_burst_strategy() -> BoxedStrategy<BurstVsPaced> {
    (any::<bool>(), prop_oneof![Just(3usize), Just(9usize), Just(12usize), Just(20usize), Just(40usize)], prop_oneof![Just(0u64), Just(30u64), Just(80u64)]).prop_map(|(tcp, requests, app_delay_ms)| BurstVsPaced { tcp, requests: if app_delay_ms == 30 { requests.min(12) } else { requests }, app_delay_ms, one_shot_receivers: app_delay_ms == 30 }).boxed()
}

fn c13_burst_run(c: &BurstVsPaced, paced: bool) -> Option<(Vec<String>, Vec<u16>)> {
    let dir = format!("{}/target/tmp", vcore::report::verif_root());
    let _ = std::fs::create_dir_all(&dir);
    let path = format!("{}/c13burst-{}-{:?}.sock", dir, std::process::id(), std::thread::current().id()).replace(['(', ')'], "");
    let _ = std::fs::remove_file(&path);
    let server = if c.tcp { tiny_http::Server::http("127.0.0.1:0") } else { tiny_http::Server::http_unix(std::path::Path::new(&path)) }.ok()?;
    let server = Arc::new(server);
    let n = c.requests;
    let delay = if paced { 0 } else { c.app_delay_ms };
    if c.one_shot_receivers {
        return c13_burst_run_one_shot(c, paced, server, &path);
    }
    let app = {
        let s = server.clone();
        std::thread::spawn(move || {
            std::thread::sleep(Duration::from_millis(delay));
            let mut urls = vec![];
            let t0 = Instant::now();
            while urls.len() < n && t0.elapsed() < Duration::from_secs(6) {
                if let Ok(Some(rq)) = s.recv_timeout(Duration::from_millis(300)) {
                    urls.push(rq.url().to_string());
                    let body = format!("answer to {}", rq.url());
                    let _ = rq.respond(tiny_http::Response::from_string(body));
                } else if urls.len() + 1 >= n || t0.elapsed() > Duration::from_secs(2) {
                    // nothing more seems to come
                    if t0.elapsed() > Duration::from_millis(1500) {
                        break;
                    }
                }
            }
            urls
        })
    };
    let mut wire: Vec<Vec<u8>> = vec![];
    for i in 0..n {
        let last = i + 1 == n;
        wire.push(format!("GET /r{} HTTP/1.1\r\nHost: h\r\n{}\r\n", i, if last { "Connection: close\r\n" } else { "" }).into_bytes());
    }
    let mut got = vec![];
    {
        let mut sock: Box<dyn ReadWriteTimeout> = if c.tcp {
            let s = std::net::TcpStream::connect(server.server_addr().to_ip()?).ok()?;
            s.set_read_timeout(Some(Duration::from_secs(8))).ok()?;
            Box::new(s)
        } else {
            let s = std::os::unix::net::UnixStream::connect(&path).ok()?;
            s.set_read_timeout(Some(Duration::from_secs(8))).ok()?;
            Box::new(s)
        };
        if paced {
            for w in &wire {
                sock.write_all(w).ok()?;
                std::thread::sleep(Duration::from_millis(4));
            }
        } else {
            let all: Vec<u8> = wire.concat();
            sock.write_all(&all).ok()?;
        }
        let mut buf = [0u8; 4096];
        loop {
            match sock.read(&mut buf) {
                Ok(0) | Err(_) => break,
                Ok(k) => got.extend_from_slice(&buf[..k]),
            }
        }
    }
    let urls = app.join().ok()?;
    drop(server);
    let _ = std::fs::remove_file(&path);
    // status codes of the responses, in order
    let mut statuses = vec![];
    let mut pos = 0;
    while pos < got.len() {
        match vcore::respparse::parse_one(&got[pos..], false) {
            Ok(m) => {
                pos += m.consumed;
                statuses.push(m.status);
            }
            Err(_) => {
                statuses.push(0);
                break;
            }
        }
    }
    Some((urls, statuses))
}

/// the same experiment with `n` application threads that are all asleep in recv() when the first
/// byte arrives and take one request each
fn c13_burst_run_one_shot(c: &BurstVsPaced, paced: bool, server: Arc<tiny_http::Server>, path: &str) -> Option<(Vec<String>, Vec<u16>)> {
    let n = c.requests;
    let urls: Arc<std::sync::Mutex<Vec<String>>> = Arc::new(std::sync::Mutex::new(vec![]));
    let mut apps = vec![];
    for _ in 0..n {
        let (s, u) = (server.clone(), urls.clone());
        apps.push(std::thread::spawn(move || {
            if let Ok(rq) = s.recv() {
                u.lock().unwrap().push(rq.url().to_string());
                let body = format!("answer to {}", rq.url());
                let _ = rq.respond(tiny_http::Response::from_string(body));
            }
        }));
    }
    std::thread::sleep(Duration::from_millis(60));
    let mut got = vec![];
    {
        let mut sock: Box<dyn ReadWriteTimeout> = if c.tcp {
            let s = std::net::TcpStream::connect(server.server_addr().to_ip()?).ok()?;
            s.set_read_timeout(Some(Duration::from_secs(4))).ok()?;
            Box::new(s)
        } else {
            let s = std::os::unix::net::UnixStream::connect(path).ok()?;
            s.set_read_timeout(Some(Duration::from_secs(4))).ok()?;
            Box::new(s)
        };
        for i in 0..n {
            let last = i + 1 == n;
            let w = format!("GET /r{} HTTP/1.1\r\nHost: h\r\n{}\r\n", i, if last { "Connection: close\r\n" } else { "" }).into_bytes();
            if paced {
                sock.write_all(&w).ok()?;
                std::thread::sleep(Duration::from_millis(15));
            } else if i == 0 {
                let mut all = vec![];
                for j in 0..n {
                    all.extend_from_slice(format!("GET /r{} HTTP/1.1\r\nHost: h\r\n{}\r\n", j, if j + 1 == n { "Connection: close\r\n" } else { "" }).as_bytes());
                }
                sock.write_all(&all).ok()?;
            }
        }
        let mut buf = [0u8; 4096];
        loop {
            match sock.read(&mut buf) {
                Ok(0) | Err(_) => break,
                Ok(k) => got.extend_from_slice(&buf[..k]),
            }
        }
    }
    // whoever is still asleep is released
    for _ in 0..n {
        server.unblock();
    }
    for a in apps {
        let _ = a.join();
    }
    drop(server);
    let _ = std::fs::remove_file(path);
    let mut statuses = vec![];
    let mut pos = 0;
    while pos < got.len() {
        match vcore::respparse::parse_one(&got[pos..], false) {
            Ok(m) => {
                pos += m.consumed;
                statuses.push(m.status);
            }
            Err(_) => {
                statuses.push(0);
                break;
            }
        }
    }
    let mut u = urls.lock().unwrap().clone();
    u.sort();
    Some((u, statuses))
}

pub fn c13_burst_test(_w: &mut (), c: &BurstVsPaced) -> Verdict {
    let (Some(a), Some(b)) = (c13_burst_run(c, false), c13_burst_run(c, true)) else { return Verdict::Pass(Good::trivial().class("scenario-not-set-up")) };
    if a != b {
        // once more, to tell a dependence on the timing from an accident of this run
        let (Some(a2), Some(b2)) = (c13_burst_run(c, false), c13_burst_run(c, true)) else { return Verdict::Pass(Good::trivial().class("scenario-not-set-up")) };
        if a2 != b2 {
            return fail("C13/real/burst-and-paced-sending-differ", format!("twice in a row: {} pipelined requests written in one piece (application receiving {} ms later): delivered {:?}, statuses {:?}; written one at a time: delivered {:?}, statuses {:?}", c.requests, c.app_delay_ms, a2.0, a2.1, b2.0, b2.1));
        }
        return Verdict::Pass(Good::trivial().class("differed-once-not-repeated"));
    }
    Verdict::Pass(if c.requests >= 9 { Good::nontrivial() } else { Good::trivial() }.class(if c.tcp { "tcp" } else { "unix" }).class(format!("requests={}", c.requests)).class_if(c.one_shot_receivers, "one-receiver-per-request-all-asleep-at-the-start"))
}

// ------------------------------------------------------------------------------------------
// C20: the server is dropped while its owner's thread unwinds from a panic

#[derive(Clone, Debug, Serialize, Deserialize)]
pub struct UnwindDrop {
    pub tcp: bool,
    /// connections served before
    pub served: usize,
}

pub fn c20_unwind_strategy() -> BoxedStrategy<UnwindDrop> {
    (any::<bool>(), 0usize..3).prop_map(|(tcp, served)| UnwindDrop { tcp, served }).boxed()
}

pub fn c20_unwind_test(_w: &mut (), c: &UnwindDrop) -> Verdict {
    let dir = format!("{}/target/tmp", vcore::report::verif_root());
    let _ = std::fs::create_dir_all(&dir);
    let path = format!("{}/c20unw-{}-{:?}.sock", dir, std::process::id(), std::thread::current().id()).replace(['(', ')'], "");
    let _ = std::fs::remove_file(&path);
    let server = if c.tcp { tiny_http::Server::http("127.0.0.1:0") } else { tiny_http::Server::http_unix(std::path::Path::new(&path)) };
    let Ok(server) = server else { return Verdict::Pass(Good::trivial().class("scenario-not-set-up")) };
    let addr = server.server_addr().to_ip();
    let connect = |p: &str| -> std::io::Result<Box<dyn ReadWriteTimeout>> {
        if c.tcp {
            std::net::TcpStream::connect(addr.unwrap()).map(|s| Box::new(s) as Box<dyn ReadWriteTimeout>)
        } else {
            std::os::unix::net::UnixStream::connect(p).map(|s| Box::new(s) as Box<dyn ReadWriteTimeout>)
        }
    };
    for i in 0..c.served {
        if let Ok(mut s) = connect(&path) {
            let _ = s.write_all(format!("GET /s{} HTTP/1.1\r\nHost: h\r\nConnection: close\r\n\r\n", i).as_bytes());
            if let Ok(Some(rq)) = server.recv_timeout(Duration::from_secs(3)) {
                let _ = rq.respond(tiny_http::Response::from_string("ok"));
            }
            let mut b = [0u8; 256];
            let _ = s.read(&mut b);
        }
    }
    // the owner panics: the server is dropped during unwinding
    let owner = std::thread::spawn(move || {
        let _ = std::panic::catch_unwind(std::panic::AssertUnwindSafe(move || {
            let _own = server;
            std::panic::panic_any(vcore::panics::HarnessPanic);
        }));
    });
    let _ = owner.join();
    // quiet period, then the first attempt counts
    std::thread::sleep(Duration::from_millis(400));
    let first = connect(&path);
    let accepted = first.is_ok();
    drop(first);
    let path_left = !c.tcp && std::path::Path::new(&path).exists();
    let _ = std::fs::remove_file(&path);
    if accepted {
        return fail("C20/real/accepting-after-drop-during-unwinding", format!("the server was dropped while its owner's thread unwound from a panic; 400 ms later the first connection attempt was accepted ({})", if c.tcp { "TCP" } else { "UNIX" }));
    }
    if path_left {
        return fail("C20/real/unix-path-left-after-drop-during-unwinding", "the server was dropped while its owner's thread unwound from a panic; 400 ms later its socket path still existed".to_string());
    }
    Verdict::Pass(Good::nontrivial().class(if c.tcp { "tcp" } else { "unix" }).class(format!("served-before={}", c.served)))
}

// ------------------------------------------------------------------------------------------
// C08: connections that are reset before the server gets to accept them, then ordinary ones

#[derive(Clone, Debug, Serialize, Deserialize)]
pub struct ResetsThenService {
    pub resets: usize,
    /// the resets hit a server that is already running (else: they are queued before it starts)
    pub running: bool,
    pub later: usize,
}

pub fn c08_resets_strategy() -> BoxedStrategy<ResetsThenService> {
    (1usize..12, any::<bool>(), 1usize..4).prop_map(|(resets, running, later)| ResetsThenService { resets, running, later }).boxed()
}

fn c08_resets_once(c: &ResetsThenService) -> Option<Result<(), String>> {
    use std::os::unix::io::AsRawFd;
    let listener = std::net::TcpListener::bind("127.0.0.1:0").ok()?;
    let addr = listener.local_addr().ok()?;
    let reset_burst = |n: usize| {
        for _ in 0..n {
            if let Ok(s) = std::net::TcpStream::connect(addr) {
                let l = libc::linger { l_onoff: 1, l_linger: 0 };
                unsafe {
                    libc::setsockopt(s.as_raw_fd(), libc::SOL_SOCKET, libc::SO_LINGER, &l as *const _ as *const libc::c_void, std::mem::size_of::<libc::linger>() as libc::socklen_t);
                }
                drop(s);
            }
        }
    };
    let server;
    if c.running {
        server = tiny_http::Server::from_listener(listener, None).ok()?;
        std::thread::sleep(Duration::from_millis(10));
        reset_burst(c.resets);
    } else {
        reset_burst(c.resets);
        std::thread::sleep(Duration::from_millis(10));
        server = tiny_http::Server::from_listener(listener, None).ok()?;
    }
    std::thread::sleep(Duration::from_millis(30));
    for i in 0..c.later {
        let mut s = match std::net::TcpStream::connect(addr) {
            Ok(s) => s,
            Err(e) => return Some(Err(format!("connection #{} after the resets: {}", i, e))),
        };
        let _ = s.set_read_timeout(Some(Duration::from_secs(3)));
        let _ = s.write_all(format!("GET /later{} HTTP/1.1\r\nHost: h\r\nConnection: close\r\n\r\n", i).as_bytes());
        let t0 = Instant::now();
        let mut served = false;
        while t0.elapsed() < Duration::from_secs(3) {
            match server.recv_timeout(Duration::from_millis(100)) {
                Ok(Some(rq)) => {
                    let mine = rq.url() == format!("/later{}", i);
                    let _ = rq.respond(tiny_http::Response::from_string("ok"));
                    if mine {
                        served = true;
                        break;
                    }
                }
                Ok(None) => {}
                Err(e) => return Some(Err(format!("recv reported {:?} ({}) after the resets", e.kind(), e))),
            }
        }
        if !served {
            return Some(Err(format!("request /later{} was not delivered within 3 s", i)));
        }
    }
    Some(Ok(()))
}

pub fn c08_resets_test(_w: &mut (), c: &ResetsThenService) -> Verdict {
    match c08_resets_once(c) {
        None => Verdict::Pass(Good::trivial().class("scenario-not-set-up")),
        Some(Ok(())) => Verdict::Pass(Good::nontrivial().class(if c.running { "resets-on-a-running-server" } else { "resets-queued-before-the-server-starts" })),
        Some(Err(first)) => match c08_resets_once(c) {
            Some(Err(second)) => fail("C08/real/service-stops-after-reset-connections", format!("twice in a row, after {} connections that were reset before the server accepted them: {} / {}", c.resets, first, second)),
            _ => Verdict::Pass(Good::trivial().class("failed-once-not-repeated")),
        },
    }
}

// ------------------------------------------------------------------------------------------
// C15 over real sockets: a client that does not read at all, for a long while, and then vanishes.
// The response is far larger than what the socket buffers absorb, so respond() is still writing
// when the client goes: it returns success, the server serves others meanwhile.

#[derive(Clone, Debug, Serialize, Deserialize)]
pub struct StalledClient {
    pub tcp: bool,
    pub chunked: bool,
    pub size_mb: usize,
    /// how long the client reads nothing before it goes
    pub stall_ms: u64,
    /// 0 orderly close, 1 reset (SO_LINGER 0), 2 half-close of the sending side first, then close
    pub end: u8,
    /// bytes of the response the client reads before it stops reading
    pub read_first: usize,
}

pub fn c15_stalled_strategy(stall_lo: u64, stall_hi: u64) -> BoxedStrategy<StalledClient> {
    (any::<bool>(), any::<bool>(), 8usize..32, stall_lo..=stall_hi, 0u8..3, prop_oneof![Just(0usize), Just(100usize), 1000usize..200_000])
        .prop_map(|(tcp, chunked, size_mb, stall_ms, end, read_first)| StalledClient { tcp, chunked, size_mb, stall_ms, end, read_first })
        .boxed()
}

pub fn c15_stalled_test(_w: &mut (), c: &StalledClient) -> Verdict {
    use std::os::unix::io::AsRawFd;
    let trivial = |why: &str| Verdict::Pass(Good::trivial().class(format!("scenario-not-set-up:{}", why)));
    let path = format!("{}/target/tmp/c15s-{}-{:?}.sock", vcore::report::verif_root(), std::process::id(), std::thread::current().id());
    let _ = std::fs::remove_file(&path);
    let server = if c.tcp { tiny_http::Server::http("127.0.0.1:0") } else { tiny_http::Server::http_unix(std::path::Path::new(&path)) };
    let Ok(server) = server else { return trivial("bind") };
    let server = Arc::new(server);
    let addr = server.server_addr();
    let connect = || -> std::io::Result<Cs> {
        match &addr {
            tiny_http::ListenAddr::IP(a) => std::net::TcpStream::connect_timeout(a, Duration::from_secs(2)).map(Cs::T),
            tiny_http::ListenAddr::Unix(_) => std::os::unix::net::UnixStream::connect(&path).map(Cs::U),
        }
    };
    let Ok(mut client) = connect() else { return trivial("connect") };
    if client.w(b"GET /big HTTP/1.1\r\nHost: h\r\n\r\n").is_err() {
        return trivial("send");
    }
    let Ok(Some(rq)) = server.recv_timeout(Duration::from_secs(10)) else { return trivial("request-did-not-arrive") };
    let n = c.size_mb << 20;
    let chunked = c.chunked;
    let (tx, rx) = std::sync::mpsc::channel();
    let t0 = Instant::now();
    let h = std::thread::spawn(move || {
        let body = std::io::repeat(b'x').take(n as u64);
        let resp = tiny_http::Response::new(tiny_http::StatusCode(200), vec![], body, if chunked { None } else { Some(n) }, None);
        let r = std::panic::catch_unwind(std::panic::AssertUnwindSafe(|| rq.respond(resp)));
        let _ = tx.send((r.map(|r| r.map_err(|e| format!("{:?}: {}", e.kind(), e))).map_err(|_| ()), t0.elapsed()));
    });
    // the client reads a little, then nothing
    if c.read_first > 0 {
        let mut got = 0;
        let mut b = [0u8; 4096];
        match &mut client {
            Cs::T(s) => {
                let _ = s.set_read_timeout(Some(Duration::from_secs(5)));
            }
            Cs::U(s) => {
                let _ = s.set_read_timeout(Some(Duration::from_secs(5)));
            }
        }
        while got < c.read_first {
            let want = (c.read_first - got).min(b.len());
            let r = match &mut client {
                Cs::T(s) => s.read(&mut b[..want]),
                Cs::U(s) => s.read(&mut b[..want]),
            };
            match r {
                Ok(0) | Err(_) => break,
                Ok(k) => got += k,
            }
        }
    }
    // meanwhile somebody else is served
    std::thread::sleep(Duration::from_millis(c.stall_ms / 2));
    let mut other_served = None;
    if let Ok(mut p) = connect() {
        let _ = p.w(b"GET /other HTTP/1.1\r\nHost: h\r\nConnection: close\r\n\r\n");
        match server.recv_timeout(Duration::from_secs(10)) {
            Ok(Some(rq2)) => {
                let _ = rq2.respond(tiny_http::Response::from_string("other"));
                let got = p.read_all(Duration::from_secs(5));
                other_served = Some(got.starts_with(b"HTTP/1.1 200") && got.ends_with(b"other"));
            }
            _ => other_served = Some(false),
        }
    }
    let spent = t0.elapsed();
    if spent < Duration::from_millis(c.stall_ms) {
        std::thread::sleep(Duration::from_millis(c.stall_ms) - spent);
    }
    // did respond() come back while the client was still there?  Then everything fitted into the
    // socket buffers (or respond gave up on a client that had done nothing but be slow)
    let early = rx.try_recv().ok();
    match c.end {
        1 => {
            let fd = match &client {
                Cs::T(s) => s.as_raw_fd(),
                Cs::U(s) => s.as_raw_fd(),
            };
            let l = libc::linger { l_onoff: 1, l_linger: 0 };
            unsafe {
                libc::setsockopt(fd, libc::SOL_SOCKET, libc::SO_LINGER, &l as *const _ as *const libc::c_void, std::mem::size_of::<libc::linger>() as libc::socklen_t);
            }
        }
        2 => {
            let _ = match &client {
                Cs::T(s) => s.shutdown(std::net::Shutdown::Write),
                Cs::U(s) => s.shutdown(std::net::Shutdown::Write),
            };
            std::thread::sleep(Duration::from_millis(20));
        }
        _ => {}
    }
    drop(client);
    let kind = format!("{}/{}", if c.tcp { "tcp" } else { "unix" }, if c.chunked { "chunked" } else { "identity" });
    let outcome = match early {
        Some(o) => Some(o),
        None => rx.recv_timeout(Duration::from_secs(40)).ok(),
    };
    let was_early = early_flag(&outcome, c.stall_ms);
    let verdict = match outcome {
        None => {
            // the thread is still inside respond(): leave it behind
            return fail(format!("C15/sock/stalled-client/{}/respond-hangs", kind), format!("respond() had not returned 40 s after the client, which had read nothing for {} ms, was gone", c.stall_ms));
        }
        Some((Err(()), _)) => fail(format!("C15/sock/stalled-client/{}/respond-panicked", kind), "panic inside respond()".to_string()),
        Some((Ok(Err(e)), at)) => fail(
            format!("C15/sock/stalled-client/{}/respond-returned-error", kind),
            format!("respond() = Err({}) after {} ms; the client read {} bytes, then nothing for {} ms, then went away (end kind {})", e, at.as_millis(), c.read_first, c.stall_ms, c.end),
        ),
        Some((Ok(Ok(())), _)) => {
            if other_served == Some(false) {
                fail(format!("C15/sock/stalled-client/{}/others-not-served", kind), "a second connection got no answer while the first client was not reading".to_string())
            } else {
                let g = if was_early { Good::trivial().class("response-fitted-into-the-buffers") } else { Good::nontrivial() };
                Verdict::Pass(g.class(kind.clone()).class(format!("end={}", c.end)).class(format!("stall>={}s", c.stall_ms / 1000)).class_if(c.read_first > 0, "read-a-little-first"))
            }
        }
    };
    let _ = h.join();
    verdict
}

fn early_flag(o: &Option<(Result<Result<(), String>, ()>, Duration)>, stall_ms: u64) -> bool {
    matches!(o, Some((_, at)) if at.as_millis() < stall_ms as u128)
}

// ------------------------------------------------------------------------------------------
// C08 over real sockets: connection A stops in the middle of a body that its handler does not read
// (the application thread that answered A waits for the rest of that body); connection B has a
// request with an unread body of its own and a further request behind it.  B is served while A
// stays as it is.  Differential and re-measured, like the other real-time C08 parts.

#[derive(Clone, Debug, Serialize, Deserialize)]
pub struct HalfBody {
    pub tcp: bool,
    /// bytes of A's 6000-byte body that are sent
    pub a_sent: usize,
    /// B's body length (streamed: above 1024)
    pub b_len: usize,
    /// B's requests behind the one with the body
    pub b_followers: usize,
}

pub fn c08_half_body_strategy() -> BoxedStrategy<HalfBody> {
    (any::<bool>(), prop_oneof![Just(0usize), Just(1usize), Just(1500usize), 0usize..5999], prop_oneof![Just(1025usize), Just(3000usize), Just(20000usize)], 1usize..3).prop_map(|(tcp, a_sent, b_len, b_followers)| HalfBody { tcp, a_sent, b_len, b_followers }).boxed()
}

/// Some(true): B had all its answers while A was stalled.  Some(false): only after A had gone.
fn c08_half_body_experiment(c: &HalfBody) -> Option<bool> {
    let path = format!("{}/target/tmp/c08hb-{}-{:?}.sock", vcore::report::verif_root(), std::process::id(), std::thread::current().id()).replace(['(', ')'], "");
    let _ = std::fs::remove_file(&path);
    let server = if c.tcp { tiny_http::Server::http("127.0.0.1:0").ok()? } else { tiny_http::Server::http_unix(std::path::Path::new(&path)).ok()? };
    let server = Arc::new(server);
    let addr = server.server_addr();
    let connect = || -> std::io::Result<Cs> {
        match &addr {
            tiny_http::ListenAddr::IP(a) => std::net::TcpStream::connect_timeout(a, Duration::from_secs(2)).map(Cs::T),
            tiny_http::ListenAddr::Unix(_) => std::os::unix::net::UnixStream::connect(&path).map(Cs::U),
        }
    };
    // two application threads, each answering without reading
    let mut apps = vec![];
    for _ in 0..2 {
        let s = server.clone();
        apps.push(std::thread::spawn(move || {
            while let Ok(rq) = s.recv() {
                let body = format!("answer to {}", rq.url());
                let _ = rq.respond(tiny_http::Response::from_string(body));
            }
        }));
    }
    let mut a = connect().ok()?;
    let mut wire = b"POST /a HTTP/1.1\r\nHost: h\r\nContent-Length: 6000\r\n\r\n".to_vec();
    wire.extend(std::iter::repeat(b'a').take(c.a_sent.min(5999)));
    a.w(&wire).ok()?;
    // A has its answer: the thread that gave it is now waiting for the rest of A's body
    {
        let mut buf = [0u8; 512];
        match &mut a {
            Cs::T(s) => {
                s.set_read_timeout(Some(Duration::from_secs(5))).ok()?;
                let n = s.read(&mut buf).ok()?;
                if n == 0 {
                    return None;
                }
            }
            Cs::U(s) => {
                s.set_read_timeout(Some(Duration::from_secs(5))).ok()?;
                let n = s.read(&mut buf).ok()?;
                if n == 0 {
                    return None;
                }
            }
        }
    }
    std::thread::sleep(Duration::from_millis(30));
    let mut b = connect().ok()?;
    let mut wire = format!("POST /b0 HTTP/1.1\r\nHost: h\r\nContent-Length: {}\r\n\r\n", c.b_len).into_bytes();
    wire.extend(std::iter::repeat(b'b').take(c.b_len));
    for k in 0..c.b_followers {
        let last = k + 1 == c.b_followers;
        wire.extend_from_slice(format!("GET /b{} HTTP/1.1\r\nHost: h\r\n{}\r\n", k + 1, if last { "Connection: close\r\n" } else { "" }).as_bytes());
    }
    b.w(&wire).ok()?;
    let want = 1 + c.b_followers;
    let count = |got: &[u8]| -> usize {
        let mut pos = 0;
        let mut n = 0;
        while pos < got.len() {
            match vcore::respparse::parse_one(&got[pos..], false) {
                Ok(m) => {
                    pos += m.consumed;
                    n += 1;
                }
                Err(_) => break,
            }
        }
        n
    };
    let got = b.read_all(Duration::from_secs(4));
    let in_time = count(&got) >= want;
    // A goes away; whatever was waiting for it goes on
    drop(a);
    let mut all = got;
    if !in_time {
        all.extend(b.read_all(Duration::from_secs(4)));
    }
    let after = count(&all) >= want;
    for _ in 0..2 {
        server.unblock();
    }
    for h in apps {
        let _ = h.join();
    }
    drop(server);
    let _ = std::fs::remove_file(&path);
    if in_time {
        Some(true)
    } else if after {
        Some(false)
    } else {
        None
    }
}

pub fn c08_half_body_test(_w: &mut (), c: &HalfBody) -> Verdict {
    let classes = |g: Good| g.class(if c.tcp { "tcp" } else { "unix" }).class(format!("b-followers={}", c.b_followers));
    match c08_half_body_experiment(c) {
        None => Verdict::Pass(classes(Good::trivial()).class("scenario-not-set-up")),
        Some(true) => Verdict::Pass(classes(Good::nontrivial())),
        Some(false) => match c08_half_body_experiment(c) {
            Some(false) => fail("C08/real/connection-waits-for-another-connections-unsent-body", format!("twice in a row: connection B ({} requests, the first with an unread body of {} bytes) had its answers only after connection A, stalled after {} of its 6000 body bytes, had gone; two application threads were serving", 1 + c.b_followers, c.b_len, c.a_sent)),
            _ => Verdict::Pass(classes(Good::trivial()).class("slow-once-not-repeated")),
        },
    }
}
