//! C03/C09 with real signals: a child process installs a SIGUSR1 handler without SA_RESTART and
//! keeps signalling every thread but its client thread while a request with a body is received,
//! answered without reading the body, and followed by another request.  A `read(2)` that returns
//! EINTR has transferred nothing; the body and the boundary behind it must come out as if no signal
//! had arrived.

use proptest::prelude::*;
use serde::{Deserialize, Serialize};
use std::io::{Read, Write};
use std::sync::atomic::{AtomicBool, Ordering};
use std::sync::Arc;
use std::time::{Duration, Instant};
use vcore::runner::{fail, Good, Verdict};

#[derive(Clone, Debug, Serialize, Deserialize)]
pub struct EintrCase {
    /// 0: Content-Length <= 1024 (buffered by the connection thread), 1: Content-Length 3000
    /// (streamed; discarded when the request is answered unread), 2: chunked
    pub body: u8,
    /// the application reads the body to its end before answering (else answers right away)
    pub read_all: bool,
}

pub fn eintr_strategy() -> BoxedStrategy<EintrCase> {
    (0u8..3, any::<bool>()).prop_map(|(body, read_all)| EintrCase { body, read_all }).boxed()
}

extern "C" fn on_signal(_: libc::c_int) {}

/// `vreal c09-eintr-child <body> <read_all> <path>`: prints one line `RESULT <text>`
pub fn child_main() -> ! {
    let a: Vec<String> = std::env::args().collect();
    let body: u8 = a.get(2).and_then(|s| s.parse().ok()).unwrap_or(0);
    let read_all = a.get(3).map(|s| s == "1").unwrap_or(false);
    let path = a.get(4).cloned().unwrap_or_default();
    let out = |s: String| -> ! {
        println!("RESULT {}", s);
        std::process::exit(0)
    };
    unsafe {
        let mut sa: libc::sigaction = std::mem::zeroed();
        sa.sa_sigaction = on_signal as usize;
        sa.sa_flags = 0; // no SA_RESTART: blocking calls return EINTR
        libc::sigemptyset(&mut sa.sa_mask);
        libc::sigaction(libc::SIGUSR1, &sa, std::ptr::null_mut());
    }
    let _ = std::fs::remove_file(&path);
    let server = match tiny_http::Server::http_unix(std::path::Path::new(&path)) {
        Ok(s) => Arc::new(s),
        Err(e) => out(format!("SETUP server: {}", e)),
    };
    // the application thread (signals reach it like the library's own threads)
    let seen: Arc<std::sync::Mutex<Vec<(String, usize, bool)>>> = Arc::new(std::sync::Mutex::new(vec![]));
    let stop = Arc::new(AtomicBool::new(false));
    let app = {
        let (s, seen, stop) = (server.clone(), seen.clone(), stop.clone());
        std::thread::spawn(move || {
            while !stop.load(Ordering::SeqCst) {
                let Ok(Some(mut rq)) = s.recv_timeout(Duration::from_millis(20)) else { continue };
                let mut got = 0usize;
                let mut clean = true;
                if read_all && rq.url() == "/a" {
                    let mut b = [0u8; 700];
                    loop {
                        match rq.as_reader().read(&mut b) {
                            Ok(0) => break,
                            Ok(n) => got += n,
                            Err(e) if e.kind() == std::io::ErrorKind::Interrupted => continue,
                            Err(_) => {
                                clean = false;
                                break;
                            }
                        }
                    }
                }
                seen.lock().unwrap().push((rq.url().to_string(), got, clean));
                let _ = rq.respond(tiny_http::Response::from_string("ok"));
            }
        })
    };
    std::thread::sleep(Duration::from_millis(30));
    // from here on this thread (the client) and the signaller do not take the signal
    unsafe {
        let mut set: libc::sigset_t = std::mem::zeroed();
        libc::sigemptyset(&mut set);
        libc::sigaddset(&mut set, libc::SIGUSR1);
        libc::pthread_sigmask(libc::SIG_BLOCK, &set, std::ptr::null_mut());
    }
    let me = unsafe { libc::syscall(libc::SYS_gettid) } as i32;
    let signaller = {
        let stop = stop.clone();
        std::thread::spawn(move || {
            let pid = std::process::id() as i32;
            let mine = unsafe { libc::syscall(libc::SYS_gettid) } as i32;
            let mut sent = 0u64;
            while !stop.load(Ordering::SeqCst) {
                if let Ok(rd) = std::fs::read_dir("/proc/self/task") {
                    for e in rd.flatten() {
                        if let Some(tid) = e.file_name().to_str().and_then(|s| s.parse::<i32>().ok()) {
                            if tid != me && tid != mine {
                                unsafe { libc::syscall(libc::SYS_tgkill, pid, tid, libc::SIGUSR1) };
                                sent += 1;
                            }
                        }
                    }
                }
                std::thread::sleep(Duration::from_micros(400));
            }
            sent
        })
    };
    let Ok(mut c) = std::os::unix::net::UnixStream::connect(&path) else { out("SETUP connect".into()) };
    let _ = c.set_read_timeout(Some(Duration::from_secs(10)));
    let (head, payload): (String, Vec<u8>) = match body {
        0 => ("POST /a HTTP/1.1\r\nHost: h\r\nContent-Length: 600\r\n\r\n".into(), vec![b'x'; 600]),
        1 => ("POST /a HTTP/1.1\r\nHost: h\r\nContent-Length: 3000\r\n\r\n".into(), vec![b'y'; 3000]),
        _ => {
            let mut p = vec![];
            for _ in 0..30 {
                p.extend_from_slice(b"64\r\n");
                p.extend_from_slice(&[b'z'; 100]);
                p.extend_from_slice(b"\r\n");
            }
            p.extend_from_slice(b"0\r\n\r\n");
            ("POST /a HTTP/1.1\r\nHost: h\r\nTransfer-Encoding: chunked\r\n\r\n".into(), p)
        }
    };
    // the body trickles in, so that the reading side sits in read(2) while signals arrive
    let _ = c.write_all(head.as_bytes());
    for piece in payload.chunks(97) {
        std::thread::sleep(Duration::from_millis(2));
        let _ = c.write_all(piece);
    }
    let _ = c.write_all(b"GET /b HTTP/1.1\r\nHost: h\r\nConnection: close\r\n\r\n");
    let mut got = vec![];
    let mut buf = [0u8; 2048];
    let t0 = Instant::now();
    while t0.elapsed() < Duration::from_secs(10) {
        match c.read(&mut buf) {
            Ok(0) => break,
            Ok(n) => got.extend_from_slice(&buf[..n]),
            Err(_) => break,
        }
    }
    stop.store(true, Ordering::SeqCst);
    let sent = signaller.join().unwrap_or(0);
    let _ = app.join();
    let _ = std::fs::remove_file(&path);
    let text = String::from_utf8_lossy(&got).to_string();
    let oks = text.matches("HTTP/1.1 200").count();
    let other = text.matches("HTTP/1.1 ").count() - oks;
    let seen = seen.lock().unwrap().clone();
    out(format!("DONE signals={} responses200={} other_responses={} seen={:?}", sent, oks, other, seen))
}

pub fn eintr_test(case: &EintrCase) -> Verdict {
    // a failure must repeat in a fresh child to count (the scenario runs against the clock)
    match eintr_once(case) {
        Verdict::Fail(first) => match eintr_once(case) {
            Verdict::Fail(_) => Verdict::Fail(first),
            _ => Verdict::Pass(Good::trivial().class("failed-once-not-repeated")),
        },
        other => other,
    }
}

fn eintr_once(case: &EintrCase) -> Verdict {
    let Ok(exe) = std::env::current_exe() else { return Verdict::Pass(Good::trivial().class("scenario-not-set-up")) };
    let dir = format!("{}/target/tmp", vcore::report::verif_root());
    let _ = std::fs::create_dir_all(&dir);
    let path = format!("{}/c09sig-{}-{:?}.sock", dir, std::process::id(), std::thread::current().id()).replace(['(', ')'], "");
    let outp = std::process::Command::new(exe).args(["c09-eintr-child", &case.body.to_string(), if case.read_all { "1" } else { "0" }, &path]).stdin(std::process::Stdio::null()).stderr(std::process::Stdio::null()).output();
    let _ = std::fs::remove_file(&path);
    let Ok(outp) = outp else { return Verdict::Pass(Good::trivial().class("scenario-not-set-up")) };
    let text = String::from_utf8_lossy(&outp.stdout).to_string();
    let Some(line) = text.lines().find(|l| l.starts_with("RESULT ")) else {
        return Verdict::Pass(Good::trivial().class("scenario-not-set-up"));
    };
    let line = &line[7..];
    if line.starts_with("SETUP") {
        return Verdict::Pass(Good::trivial().class("scenario-not-set-up"));
    }
    let want_len = match case.body {
        0 => 600,
        _ => 3000,
    };
    let kind = ["buffered", "streamed", "chunked"][case.body as usize % 3];
    let seen_a = line.contains("(\"/a\"");
    let seen_b = line.contains("(\"/b\"");
    if !line.contains("responses200=2") || !line.contains("other_responses=0") || !seen_a || !seen_b {
        return fail(format!("C09/signals/{}/requests-lost-or-misparsed", kind), format!("with signals interrupting read(2) (handler installed without SA_RESTART) the two requests were not both delivered and answered 200: {}", line));
    }
    if case.read_all && !line.contains(&format!("(\"/a\", {}, true)", want_len)) {
        return fail(format!("C09/signals/{}/body-differs", kind), format!("the application (which repeats interrupted reads) did not read the {} body bytes: {}", want_len, line));
    }
    Verdict::Pass(Good::nontrivial().class(format!("body:{}", kind)).class(if case.read_all { "read-all" } else { "answered-unread" }))
}
