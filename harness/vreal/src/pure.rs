//! PURE engine: public `Response` API + `raw_print` into a Vec.  Shared by `#[path]` with the
//! fuzz target.

use tiny_http::{HTTPVersion, Header, Response, StatusCode};
use vcore::resp::{body_text, Ctor, RespCase, RespOut, Via};

/// reader handing out the body in the generated piece sizes
pub struct PieceReader {
    pub data: Vec<u8>,
    pub pos: usize,
    pub pieces: Vec<usize>,
    pub idx: usize,
    /// every k-th call reports a transient `Interrupted` (0 = never): io::copy, read_to_end and every
    /// careful reader call again
    pub intr: usize,
    pub calls: usize,
}

impl std::io::Read for PieceReader {
    fn read(&mut self, buf: &mut [u8]) -> std::io::Result<usize> {
        self.calls += 1;
        if self.intr > 0 && self.calls % self.intr == 0 {
            return Err(std::io::ErrorKind::Interrupted.into());
        }
        if self.pos >= self.data.len() || buf.is_empty() {
            return Ok(0);
        }
        let want = if self.pieces.is_empty() { usize::MAX } else { self.pieces[self.idx % self.pieces.len()].max(1) };
        self.idx += 1;
        let n = want.min(buf.len()).min(self.data.len() - self.pos);
        buf[..n].copy_from_slice(&self.data[self.pos..self.pos + n]);
        self.pos += n;
        Ok(n)
    }
}

/// a writer that may take only part of what it is offered, or ask to be called again
/// (`ErrorKind::Interrupted`), as pipes, TLS streams and interrupted `send` calls do
pub struct Choppy {
    pub out: Vec<u8>,
    pub max: usize,
    pub interrupt_every: usize,
    pub calls: usize,
}

impl std::io::Write for Choppy {
    fn write(&mut self, b: &[u8]) -> std::io::Result<usize> {
        self.calls += 1;
        if self.interrupt_every > 0 && self.calls % self.interrupt_every == 0 {
            return Err(std::io::ErrorKind::Interrupted.into());
        }
        let n = b.len().min(self.max);
        self.out.extend_from_slice(&b[..n]);
        Ok(n)
    }
    fn flush(&mut self) -> std::io::Result<()> {
        Ok(())
    }
}

fn hdr(name: &str, value: &str) -> Header {
    Header::from_bytes(name.as_bytes(), value.as_bytes()).expect("generator produces ASCII headers")
}

fn now_unix() -> i64 {
    std::time::SystemTime::now().duration_since(std::time::UNIX_EPOCH).map(|d| d.as_secs() as i64).unwrap_or(0)
}

/// The typed part of the builder chain (before `boxed()`), as far as the case's plan puts calls there.
fn typed_part<R: std::io::Read + Send + 'static>(r: Response<R>, case: &RespCase) -> tiny_http::ResponseBox {
    box_part(typed_ops(r, case), case)
}

fn box_part<R: std::io::Read + Send + 'static>(r: Response<R>, case: &RespCase) -> tiny_http::ResponseBox {
    let b = r.boxed();
    if case.plan & 2 != 0 {
        b.boxed()
    } else {
        b
    }
}

fn typed_ops<R: std::io::Read + Send + 'static>(mut r: Response<R>, case: &RespCase) -> Response<R> {
    let p = case.plan;
    if p & 16 != 0 && p & 32 == 0 {
        // (every integer type the status can be given in)
        r = match case.body_seed % 4 {
            0 => r.with_status_code(case.status),
            1 => r.with_status_code(case.status as i32),
            2 => r.with_status_code(case.status as u32),
            _ => r.with_status_code(case.status as i16),
        };
    }
    if p & 1 != 0 {
        for h in case.headers.iter().filter(|h| h.via != Via::Ctor) {
            match h.via {
                Via::With => r = r.with_header(hdr(&h.name, &h.value)),
                _ => r.add_header(hdr(&h.name, &h.value)),
            }
        }
    }
    if (p >> 2) & 3 == 1 {
        if let Some(t) = case.threshold {
            r = r.with_chunked_threshold(t);
        }
    }
    r
}

pub fn build_boxed(case: &RespCase) -> tiny_http::ResponseBox {
    let body = case.body();
    let p = case.plan;
    let ctor_headers: Vec<Header> = case.headers.iter().filter(|h| h.via == Via::Ctor).map(|h| hdr(&h.name, &h.value)).collect();
    // with bit4 the constructor gets another status, replaced later through with_status_code
    let st0 = if p & 16 != 0 {
        if case.status == 200 {
            404
        } else {
            200
        }
    } else {
        case.status
    };
    let mut resp: tiny_http::ResponseBox = match case.ctor {
        Ctor::New => {
            // bit6: the later half of the constructor's headers (bit7: all of them) arrives
            // through the `additional_headers` channel, in the same order
            let mut ctor_headers = ctor_headers;
            let via_channel: Option<Vec<Header>> = if p & 0xc0 != 0 {
                let k = if p & 0x80 != 0 { 0 } else { ctor_headers.len() / 2 };
                Some(ctor_headers.split_off(k))
            } else {
                None
            };
            let rx = via_channel.map(|hs| {
                let (tx, rx) = std::sync::mpsc::channel();
                for h in hs {
                    let _ = tx.send(h);
                }
                rx
            });
            typed_part(
                Response::new(
                    StatusCode(st0),
                    ctor_headers,
                    PieceReader { data: if case.with_data { vec![] } else { body.clone() }, pos: 0, pieces: case.pieces.clone(), idx: 0, intr: if case.body_seed % 5 == 0 { 2 + (case.body_seed as usize / 5) % 3 } else { 0 }, calls: 0 },
                    if case.declared { Some(case.body_len) } else { None },
                    rx,
                ),
                case,
            )
        }
        Ctor::FromString => typed_part(Response::from_string(body_text(case.body_seed, case.body_len, case.utf8)).with_status_code(st0), case),
        Ctor::FromData => typed_part(Response::from_data(vcore::resp::body_bytes(case.body_seed, case.body_len)).with_status_code(st0), case),
        // (the only Clone impl: Response<io::Empty>; a clone must carry the same policy state)
        Ctor::Empty => {
            let r = Response::empty(st0);
            match case.body_seed % 3 {
                // cloned fresh from the constructor
                0 => typed_part(r.clone(), case),
                // cloned after the typed builder calls (a template with its headers, declared length
                // and threshold, cloned per use)
                1 => {
                    let r = typed_ops(r, case);
                    let c = r.clone();
                    drop(r);
                    box_part(c, case)
                }
                _ => typed_part(r, case),
            }
        }
        Ctor::NewEmpty => typed_part(Response::new_empty(StatusCode(st0)), case),
        Ctor::FromFile => {
            let dir = format!("{}/target/tmp", vcore::report::verif_root());
            let _ = std::fs::create_dir_all(&dir);
            let path = format!("{}/c19-{}-{:?}.bin", dir, std::process::id(), std::thread::current().id());
            std::fs::write(&path, vcore::resp::body_bytes(case.body_seed, case.body_len)).expect("write temp file");
            let f = std::fs::File::open(&path).expect("open temp file");
            let _ = std::fs::remove_file(&path);
            typed_part(Response::from_file(f).with_status_code(st0), case)
        }
    };
    if p & 16 != 0 && p & 32 != 0 {
        resp = resp.with_status_code(case.status);
    }
    if (p >> 2) & 3 == 2 {
        if let Some(t) = case.threshold {
            resp = resp.with_chunked_threshold(t);
        }
    }
    if p & 1 == 0 {
        for h in case.headers.iter().filter(|h| h.via != Via::Ctor) {
            match h.via {
                Via::With => resp = resp.with_header(hdr(&h.name, &h.value)),
                _ => resp.add_header(hdr(&h.name, &h.value)),
            }
        }
    }
    if case.with_data {
        resp = resp
            .with_data(
                PieceReader { data: body, pos: 0, pieces: case.pieces.clone(), idx: 0, intr: if case.body_seed % 5 == 0 { 2 + (case.body_seed as usize / 5) % 3 } else { 0 }, calls: 0 },
                if case.declared { Some(case.body_len) } else { None },
            )
            .boxed();
    }
    if !matches!((p >> 2) & 3, 1 | 2) {
        if let Some(t) = case.threshold {
            resp = resp.with_chunked_threshold(t);
        }
    }
    resp
}

pub fn run_case(case: &RespCase) -> RespOut {
    let resp = build_boxed(case);
    let getter_data_length = resp.data_length();
    let getter_headers: Vec<(String, String)> = resp.headers().iter().map(|h| (h.field.as_str().as_str().to_string(), h.value.as_str().to_string())).collect();
    let getter_status = resp.status_code().0;
    let req_headers: Vec<Header> = match &case.te {
        Some(v) => vec![hdr("Host", "x"), hdr("TE", v)],
        None => vec![hdr("Host", "x")],
    };
    let mut w = Choppy { out: Vec::with_capacity(case.body_len + 512), max: [usize::MAX, 1, 7, 1000, 13, 13][case.wmode as usize % 6], interrupt_every: [0, 0, 0, 0, 3, 2][case.wmode as usize % 6], calls: 0 };
    let t_before = now_unix();
    let r = vcore::panics::catch(|| resp.raw_print(&mut w, HTTPVersion(case.version.0, case.version.1), &req_headers, case.head, case.upgrade.as_deref()));
    let t_after = now_unix();
    let out = w.out;
    let print_err = match r {
        Ok(r) => r.err().map(|e| e.to_string()),
        Err(p) => Some(format!("PANIC {} at {}", p.message, p.location)),
    };
    RespOut { bytes: out, print_err, getter_data_length, getter_headers, getter_status, t_before, t_after }
}
