//! Harness binary for the unmodified (`real`) build of tiny-http.

mod interp;
mod props_sock;
mod pure;
mod sock;

use vcore::cli::{drive, Cli};
use vcore::resp;
use vcore::runner::{make_list_part, make_part, Part};

fn main() {
    let cli = Cli::parse("vreal");
    vcore::panics::install();
    let mut parts: Vec<Part> = vec![];
    let (rule, assumptions): (&str, Vec<&str>) = match cli.property.as_str() {
        "C04" => {
            let max = if cli.thorough { 300_000 } else { 140_000 };
            parts.push(make_part("pure", "PURE", cli.cases(200_000, 10_000_000), move || resp::c04_strategy(max), |_| (), |_, c| resp::oracle_c04(c, &pure::run_case(c))));
            (
                "cases: RespCase drawn by proptest (status x app headers incl. protected names x body length from the boundary set x declared/undeclared x chunk threshold x request version x HEAD x TE value x reader piece sizes), printed with Response::raw_print; non-trivial: body bytes are on the wire (non-HEAD, status allows a body, length > 0); distinct by case value",
                vec!["declared lengths are correct (property's domain)", "header values are visible ASCII without CR/LF and without surrounding whitespace", "status codes restricted to 100..=999"],
            )
        }
        "C05" => {
            parts.push(make_list_part("product", "PURE", resp::c05_product(), true, |_| (), |_, c| resp::oracle_c05(c, &pure::run_case(c))));
            parts.push(make_part("random-te", "PURE", cli.cases(60_000, 5_000_000), resp::c05_strategy, |_| (), |_, c| resp::oracle_c05(c, &pure::run_case(c))));
            (
                "part product: the complete product version{0.9,1.0,1.1} x status{100,101,199,200,204,304,404,500} x threshold{0,1,7,default,MAX} x length{unknown,0,thr-1,thr,thr+1} x 63 TE values x HEAD x upgrade; part random-te: proptest TE lists (1-6, sometimes up to 40 elements; codings x letter case x weights incl. malformed ones); every distinct tuple is non-trivial",
                vec!["where the statement leaves the coding open (equal highest weights; a weight that is not an RFC qvalue on a supported coding) every reading is admitted"],
            )
        }
        "C19" => {
            parts.push(make_part("pure", "PURE", cli.cases(200_000, 10_000_000), resp::c19_strategy, |_| (), |_, c| resp::oracle_c19(c, &pure::run_case(c))));
            (
                "cases: RespCase with 0-12 application headers (protected/special names in random letter case, duplicates) supplied through Response::new / add_header / with_header, every constructor (new, from_string incl. multi-byte text, from_data, from_file, empty, new_empty), optional with_data; non-trivial: the list contains a protected/special name or a duplicate name; distinct by case value",
                vec!["the surviving Content-Type may stand at the place of the first or of the last one supplied", "auto Date must be within 2 s of the wall clock read before/after raw_print"],
            )
        }
        other => match props_sock::parts(&cli) {
            Some((p, rule, assumptions)) => {
                drive(&cli, p, rule, &assumptions);
            }
            None => {
                eprintln!("vreal: no parts for property {}", other);
                std::process::exit(3)
            }
        },
    };
    drive(&cli, parts, rule, &assumptions)
}
