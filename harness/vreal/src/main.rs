//! Harness binary for the unmodified (`real`) build of tiny-http.

mod alloc;
mod interp;
mod proc14;
mod proc20;
mod proc09;
mod props_sock;
mod props_sock2;
mod pure;
mod sock;

use vcore::cli::{drive, Cli};
use vcore::resp;
use vcore::runner::{make_list_part, make_part, Part};

#[global_allocator]
static GLOBAL: alloc::Counting = alloc::Counting;

fn main() {
    if std::env::args().nth(1).as_deref() == Some("c14-child") {
        proc14::child_main();
    }
    if std::env::args().nth(1).as_deref() == Some("c09-eintr-child") {
        proc09::child_main();
    }
    if std::env::args().nth(1).as_deref() == Some("c20-child") {
        proc20::child_main();
    }
    let cli = Cli::parse("vreal");
    vcore::panics::install();
    let mut parts: Vec<Part> = vec![];
    let (rule, assumptions): (&str, Vec<&str>) = match cli.property.as_str() {
        "C04" => {
            let max = if cli.thorough { 300_000 } else { 140_000 };
            parts.push(make_part("pure", "PURE", cli.cases(200_000, 10_000_000), move || resp::c04_strategy(max), |_| (), |_, c| resp::oracle_c04(c, &pure::run_case(c))));
            (
                "cases: RespCase drawn by proptest (status x app headers incl. protected names x body length from the boundary set x declared/undeclared x chunk threshold x request version x HEAD x TE value x reader piece sizes), printed with Response::raw_print; non-trivial: body bytes are on the wire (non-HEAD, status allows a body, length > 0); distinct by case value",
                vec!["declared lengths are correct (property's domain)", "header values are visible ASCII without CR/LF and without surrounding whitespace", "status codes restricted to 100..=999"],
            )
        }
        "C05" => {
            parts.push(make_list_part("product", "PURE", resp::c05_product(), true, |_| (), |_, c| resp::oracle_c05(c, &pure::run_case(c))));
            parts.push(make_part("random-te", "PURE", cli.cases(60_000, 5_000_000), resp::c05_strategy, |_| (), |_, c| resp::oracle_c05(c, &pure::run_case(c))));
            (
                "part product: the complete product version{0.9,1.0,1.1} x status{100,101,199,200,204,304,404,500} x threshold{0,1,7,default,MAX} x length{unknown,0,thr-1,thr,thr+1} x 63 TE values x HEAD x upgrade; part random-te: proptest TE lists (1-6, sometimes up to 40 elements; codings x letter case x weights incl. malformed ones); every distinct tuple is non-trivial",
                vec!["where the statement leaves the coding open (equal highest weights; a weight that is not an RFC qvalue on a supported coding) every reading is admitted"],
            )
        }
        "C14" => {
            let thorough = cli.thorough;
            parts.push(make_part("proc", "PROC", cli.cases(2_000, 200_000), move || proc14::c14_strategy(thorough), proc14::ChildProc::new, |cp, c| proc14::c14_test(cp, c)));
            (
                "cases run in child server processes (one per worker) with a counting allocator and a panic hook: Content-Length up to 10^30 / chunk-size lines of 1-40 hex digits with far fewer bytes sent, 1-20000 headers, single lines of 1 B - 1 MiB (4 MiB thorough) in request line / header name / header value, TE lists with up to 64 elements and q in {NaN, inf, -inf, 1e39, -0, ...}, random byte mutations (NUL, CR, LF, >= 0x80, ...) and truncations of valid requests incl. pipelines/upgrade/expect, reset storms on TCP (request then RST before accept); handler {answer/drop without reading, read some, read all}; oracle: the child survives, no thread panics, the largest single allocation on library threads and inside library calls <= 64 KiB + 64 x bytes the client had sent, a fresh connection is still served; non-trivial: declared length beyond what was sent, >= 64 KiB sent, or a reset storm",
                vec!["allocation bound: 64 KiB + 64 x bytes sent (a parsed header costs about 50 bytes of bookkeeping for as little as 5 bytes on the wire, and vectors double)", "a child killed by the harness watchdog is inconclusive, a child that dies by itself (abort, signal) is a violation"],
            )
        }
        "C09" => {
            let mut parts2: Vec<Part> = vec![];
            let mut rule = String::new();
            if let Some((p, r, _)) = props_sock::parts(&cli) {
                parts2 = p;
                rule = r.to_string();
            }
            let mut p = make_part("proc-signals", "PROC", cli.cases(6, 120), proc09::eintr_strategy, |_| (), |_, c| proc09::eintr_test(c));
            p.max_workers = Some(3);
            p.max_shrink_iters = 3;
            parts2.push(p);
            rule.push_str("; part proc-signals: a child process with a SIGUSR1 handler installed without SA_RESTART signals all its threads but the client every 0.4 ms while a request with a buffered (600), streamed (3000) or chunked body trickles in, is read to its end or answered unread, and is followed by another request: both requests are delivered and answered 200, the body comes out complete");
            drive(&cli, parts2, &rule, &["socket engine: kernel timing is not controlled; a watchdog expiry is reported as inconclusive (exit 2), never as a violation", "inputs follow the grammar of DESIGN.md 3.1 (CRLF line ends, token header names, visible-ASCII values and targets)"]);
            return;
        }
        "C02" => {
            // the conversation part comes from props_sock; here: the peer-address clause under resets
            let mut parts2: Vec<Part> = vec![];
            if let Some((p, _, _)) = props_sock::parts(&cli) {
                parts2 = p;
            }
            let mut p = make_part("real-reset-before-accept", "CONV/sock", cli.cases(6, 300), props_sock2::c02_reset_strategy, |_| (), |w, c| props_sock2::c02_reset_test(w, c));
            p.max_workers = Some(4);
            p.max_shrink_iters = 4;
            parts2.push(p);
            drive(
                &cli,
                parts2,
                "cases: 1-4 pipelined requests per connection from the RFC 7230 head grammar (standard and extension methods, targets up to 1.4 KiB, 0-64 headers with duplicates / empty values / colons / inner SP,HT / OWS variants / letter-case variants), over UNIX sockets and (sampled) TCP; oracle: delivered method, url, version, header list and remote_addr equal what was sent, also through Display / Debug and header-name comparison; part real-reset-before-accept: 1-4 TCP connections that sent a complete request and were reset (SO_LINGER 0) before the server was started on the listener, beside 1-2 ordinary ones: every request that is delivered carries its client's socket address; non-trivial: at least one header / all ordinary requests delivered",
                &["socket engine: kernel timing is not controlled; a watchdog expiry is reported as inconclusive (exit 2), never as a violation", "inputs follow the grammar of DESIGN.md 3.1 (CRLF line ends, token header names, visible-ASCII values and targets)"],
            );
            return;
        }
        "C13" => {
            let mut p = make_part("real-burst-vs-paced", "CONV/sock", cli.cases(10, 400), props_sock2::c13_burst_strategy, |_| (), |w, c| props_sock2::c13_burst_test(w, c));
            p.max_workers = Some(4);
            p.max_shrink_iters = 3;
            parts.push(p);
            (
                "part real-burst-vs-paced: the whole Server over real TCP/UNIX sockets: 3-40 pipelined requests written in one piece while the application starts receiving 0-80 ms later, and the same bytes written one request at a time with the application receiving all along; oracle (metamorphic, re-measured): the requests the application receives and the status codes the client reads are the same; non-trivial: >= 9 requests",
                vec!["real-time part: a difference must repeat on fresh servers to count"],
            )
        }
        "C07" => {
            let mut p = make_part("real-edge", "CONV/sock", cli.cases(40, 2_000), props_sock2::c07_real_edge_strategy, |_| (), |w, c| props_sock2::c07_real_edge_test(w, c));
            p.max_workers = Some(4);
            p.max_shrink_iters = 4;
            parts.push(p);
            (
                "part real-edge (real threads, real clock): one thread in recv_timeout(1-40 ms) once, one thread in recv(), a request written 0.15-3 ms before the timeout runs out; oracle: the request reaches one of the two within 3 s (it is a violation only if it is then still queued while the second thread is still blocked); non-trivial: the timed receiver came back empty-handed and the blocked one got the request",
                vec!["real-time part: which receiver the kernel wakes and where the write lands relative to the deadline are not controlled; cases that miss the window are counted as trivial"],
            )
        }
        "C08" => {
            let mut p = make_part("real-idle", "CONV/sock", cli.cases(30, 3_000), props_sock2::c08_real_strategy, |_| (), |w, c| props_sock2::c08_real_test(w, c));
            p.max_workers = Some(8);
            p.max_shrink_iters = 4;
            parts.push(p);
            let mut p = make_part("real-resets-then-service", "CONV/sock", cli.cases(8, 300), props_sock2::c08_resets_strategy, |_| (), |w, c| props_sock2::c08_resets_test(w, c));
            p.max_workers = Some(4);
            p.max_shrink_iters = 3;
            parts.push(p);
            let mut p = make_part("real-half-body", "CONV/sock", cli.cases(3, 200), props_sock2::c08_half_body_strategy, |_| (), |w, c| props_sock2::c08_half_body_test(w, c));
            p.max_workers = Some(8);
            p.max_shrink_iters = 2;
            parts.push(p);
            let mut p = make_part("real-slow-body", "CONV/sock", cli.cases(16, 600), props_sock2::c08_slow_strategy, |_| (), |w, c| props_sock2::c08_slow_test(w, c));
            p.max_workers = Some(8);
            p.max_shrink_iters = 4;
            parts.push(p);
            (
                "part real-half-body: connection A stops after a generated part of a 6000-byte body its handler does not read (the application thread that answered it waits for the rest); connection B sends a request with an unread body of 1025-20000 bytes and 1-2 further requests: B has all its answers within 4 s while A stays stalled (two application threads; differential: only answered-after-A-had-gone, twice in a row, is a violation); part real-resets-then-service: 1-11 TCP connections reset (SO_LINGER 0) before the server accepts them - queued before it starts, or against the running server - then 1-3 ordinary connections, each of which must be accepted and its request delivered within 3 s (re-measured); part real-slow-body: two connections, two application threads; A's response body (HTTP/1.0, TE: identity or chunked streaming; length declared or not) comes from a reader that stalls at its start or after 10 bytes until B has its answer (gives up after 4 s); B's handler answers once A's is inside respond(); oracle (re-measured): B's answer arrives while A's reader is still stalled; part real-idle: real TCP/UNIX sockets: 1-6 connections that are open but silent (no byte sent yet) or stalled in the middle of a request head, then 1-6 connections with complete requests; oracle (differential, re-measured): every complete request is answered while the idle connections stay open; a violation needs, twice in a row on fresh servers, a request that got no answer for 5 s and got it as soon as the idle connections were closed; non-trivial: >= 5 connections",
                vec!["socket engine: only positive re-measured evidence of a dependence on another connection ending counts as a violation; anything else that is slow is inconclusive"],
            )
        }
        "C15" => {
            let max_len = if cli.thorough { 100_000 } else { 20_000 };
            parts.push(make_part("sock-cuts", "CONV/sock", cli.cases(600, 30_000), move || props_sock2::c15_sock_strategy(max_len), sock::SockWorker::new, |w, c| props_sock2::c15_sock_test(w, c)));
            let (lo, hi, k) = if cli.thorough { (11_000, 32_000, 48) } else { (11_000, 13_000, 8) };
            let mut p = make_part("real-stalled-client", "CONV/sock", k, move || props_sock2::c15_stalled_strategy(lo, hi), |_| (), |w, c| props_sock2::c15_stalled_test(w, c));
            p.max_workers = Some(8);
            p.max_shrink_iters = 2;
            parts.push(p);
            (
                "part real-stalled-client: a response of 8-31 MiB (identity or chunked) to a TCP/UNIX client that reads nothing (or a little and then nothing) for 11-13 s (thorough: up to 32 s) and then closes, resets or half-closes and closes: respond() returns Ok — not an error, a panic or a hang — and a second connection is served during the stall; non-trivial: respond() was still writing when the client went; part sock-cuts: corpus conversations over real UNIX/TCP sockets, the client sends a prefix (cut at a region boundary -1/0/+1 or at a random offset) and then half-closes, closes, or resets (SO_LINGER 0); oracle: delivered ids are a subset of the requests complete in the prefix (= and answered for half-close), respond() = Ok, no panic, and a fresh connection to the same server is served afterwards; non-trivial: cut strictly inside a message",
                vec!["socket engine: after an abrupt close late deliveries are only waited for briefly (a late delivery is then not attributed to the case)", "a panic is attributed to the case during which it was observed"],
            )
        }
        "C17" => {
            let mut p = make_part("real-clock", "CONV/sock", cli.cases(12, 400), props_sock2::c17_time_strategy, |_| (), |w, c| props_sock2::c17_time_test(w, c));
            p.max_workers = Some(4);
            parts.push(p);
            (
                "part real-clock: on the real clock and with OS threads: recv_timeout(T), T in {0,1,2,5,10,20,50,100} ms on an idle TCP/UNIX server: elapsed >= T - 1.2 ms (deterministic by the wait) and <= 2T + 1 s (re-measured up to 3 times); r OS threads blocked in recv() and u <= r unblock() calls: never more than u come back, exactly u within 10 s; try_recv on an idle server returns nothing; non-trivial: T > 0 or u > 0",
                vec!["real-clock upper bounds carry 1 s of slack and are re-measured; a receiver that is not released within 10 s is inconclusive here (the scheduled engine decides it)"],
            )
        }
        "C20" => {
            // quick: a fixed list that covers every listen-address kind; thorough: 24 generated ones
            let mut p = if cli.thorough {
                make_part("real-time", "CONV/sock", 24, props_sock2::c20_real_strategy, |_| (), |w, c| props_sock2::c20_real_test(w, c))
            } else {
                let b = 8 + (cli.seed as usize * 7) % 24;
                let fixed = vec![
                    props_sock2::RealShutdown { tcp: true, addr: 1, burst: b, hold: true, queued_at_drop: 14 },
                    props_sock2::RealShutdown { tcp: false, addr: 0, burst: 24, hold: cli.seed % 2 == 0, queued_at_drop: 14 },
                    props_sock2::RealShutdown { tcp: true, addr: 2, burst: 12, hold: false, queued_at_drop: 0 },
                    props_sock2::RealShutdown { tcp: true, addr: if cli.seed % 2 == 0 { 3 } else { 0 }, burst: b + 5, hold: true, queued_at_drop: 0 },
                ];
                make_list_part("real-time", "CONV/sock", fixed, false, |_| (), |w, c| props_sock2::c20_real_test(w, c))
            };
            p.max_workers = Some(1);
            p.max_shrink_iters = 8;
            parts.push(p);
            let mut p = make_part("real-drop-while-unwinding", "CONV/sock", if cli.thorough { 40 } else { 6 }, props_sock2::c20_unwind_strategy, |_| (), |w, c| props_sock2::c20_unwind_test(w, c));
            p.max_workers = Some(3);
            p.max_shrink_iters = 3;
            parts.push(p);
            let mut p = make_part("proc-accept-failure", "PROC", if cli.thorough { 120 } else { 24 }, proc20::fd_strategy, |_| (), |_, c| proc20::fd_test(c));
            p.max_workers = Some(2);
            p.max_shrink_iters = 4;
            parts.push(p);
            (
                "part real-time (one scenario at a time, ~9 s each): TCP server on 127.0.0.1 / 127.0.0.2 / [::1] / 0.0.0.0 or UNIX server, burst of 6-40 simultaneously open connections all answered, 6.2 s idle: thread count (/proc/self/task) back to <= baseline + accept + 4; next request still served; server dropped (optionally while the application holds a request): after 3 s of silence the first connection attempt is refused, UNIX path removed, the held request's answer reaches the client; part real-drop-while-unwinding: the thread that owns the server panics, so that the server is dropped during unwinding: 400 ms later the first connection attempt is refused and a UNIX path is gone; part proc-accept-failure: a child process serves 0-3 connections, then lowers its own descriptor limit until accept() fails (the accept thread ends and recv() reports the error), drops the server and checks that the UNIX path is gone within 2 s and that a new connection attempt is refused",
                vec!["thread counts are process-wide: this part runs single-threaded"],
            )
        }
        "C19" => {
            parts.push(make_part("pure", "PURE", cli.cases(200_000, 10_000_000), resp::c19_strategy, |_| (), |_, c| resp::oracle_c19(c, &pure::run_case(c))));
            (
                "cases: RespCase with 0-12 application headers (protected/special names in random letter case, duplicates) supplied through Response::new / add_header / with_header, every constructor (new, from_string incl. multi-byte text, from_data, from_file, empty, new_empty), optional with_data; non-trivial: the list contains a protected/special name or a duplicate name; distinct by case value",
                vec!["the surviving Content-Type may stand at the place of the first or of the last one supplied", "auto Date must be within 2 s of the wall clock read before/after raw_print"],
            )
        }
        other => match props_sock::parts(&cli) {
            Some((p, rule, assumptions)) => {
                drive(&cli, p, rule, &assumptions);
            }
            None => {
                eprintln!("vreal: no parts for property {}", other);
                std::process::exit(3)
            }
        },
    };
    drive(&cli, parts, rule, &assumptions)
}
