//! Harness binary for the unmodified (`real`) build of tiny-http.

mod alloc;
mod interp;
mod proc14;
mod props_sock;
mod pure;
mod sock;

use vcore::cli::{drive, Cli};
use vcore::resp;
use vcore::runner::{make_list_part, make_part, Part};

#[global_allocator]
static GLOBAL: alloc::Counting = alloc::Counting;

fn main() {
    if std::env::args().nth(1).as_deref() == Some("c14-child") {
        proc14::child_main();
    }
    let cli = Cli::parse("vreal");
    vcore::panics::install();
    let mut parts: Vec<Part> = vec![];
    let (rule, assumptions): (&str, Vec<&str>) = match cli.property.as_str() {
        "C04" => {
            let max = if cli.thorough { 300_000 } else { 140_000 };
            parts.push(make_part("pure", "PURE", cli.cases(200_000, 10_000_000), move || resp::c04_strategy(max), |_| (), |_, c| resp::oracle_c04(c, &pure::run_case(c))));
            (
                "cases: RespCase drawn by proptest (status x app headers incl. protected names x body length from the boundary set x declared/undeclared x chunk threshold x request version x HEAD x TE value x reader piece sizes), printed with Response::raw_print; non-trivial: body bytes are on the wire (non-HEAD, status allows a body, length > 0); distinct by case value",
                vec!["declared lengths are correct (property's domain)", "header values are visible ASCII without CR/LF and without surrounding whitespace", "status codes restricted to 100..=999"],
            )
        }
        "C05" => {
            parts.push(make_list_part("product", "PURE", resp::c05_product(), true, |_| (), |_, c| resp::oracle_c05(c, &pure::run_case(c))));
            parts.push(make_part("random-te", "PURE", cli.cases(60_000, 5_000_000), resp::c05_strategy, |_| (), |_, c| resp::oracle_c05(c, &pure::run_case(c))));
            (
                "part product: the complete product version{0.9,1.0,1.1} x status{100,101,199,200,204,304,404,500} x threshold{0,1,7,default,MAX} x length{unknown,0,thr-1,thr,thr+1} x 63 TE values x HEAD x upgrade; part random-te: proptest TE lists (1-6, sometimes up to 40 elements; codings x letter case x weights incl. malformed ones); every distinct tuple is non-trivial",
                vec!["where the statement leaves the coding open (equal highest weights; a weight that is not an RFC qvalue on a supported coding) every reading is admitted"],
            )
        }
        "C14" => {
            let thorough = cli.thorough;
            parts.push(make_part("proc", "PROC", cli.cases(3_000, 200_000), move || proc14::c14_strategy(thorough), proc14::ChildProc::new, |cp, c| proc14::c14_test(cp, c)));
            (
                "cases run in child server processes (one per worker) with a counting allocator and a panic hook: Content-Length up to 10^30 / chunk-size lines of 1-40 hex digits with far fewer bytes sent, 1-20000 headers, single lines of 1 B - 1 MiB (4 MiB thorough) in request line / header name / header value, TE lists with up to 64 elements and q in {NaN, inf, -inf, 1e39, -0, ...}, random byte mutations (NUL, CR, LF, >= 0x80, ...) and truncations of valid requests incl. pipelines/upgrade/expect, reset storms on TCP (request then RST before accept); handler {answer/drop without reading, read some, read all}; oracle: the child survives, no thread panics, the largest single allocation on library threads and inside library calls <= 64 KiB + 64 x bytes the client had sent, a fresh connection is still served; non-trivial: declared length beyond what was sent, >= 64 KiB sent, or a reset storm",
                vec!["allocation bound: 64 KiB + 64 x bytes sent (a parsed header costs about 50 bytes of bookkeeping for as little as 5 bytes on the wire, and vectors double)", "a child killed by the harness watchdog is inconclusive, a child that dies by itself (abort, signal) is a violation"],
            )
        }
        "C19" => {
            parts.push(make_part("pure", "PURE", cli.cases(200_000, 10_000_000), resp::c19_strategy, |_| (), |_, c| resp::oracle_c19(c, &pure::run_case(c))));
            (
                "cases: RespCase with 0-12 application headers (protected/special names in random letter case, duplicates) supplied through Response::new / add_header / with_header, every constructor (new, from_string incl. multi-byte text, from_data, from_file, empty, new_empty), optional with_data; non-trivial: the list contains a protected/special name or a duplicate name; distinct by case value",
                vec!["the surviving Content-Type may stand at the place of the first or of the last one supplied", "auto Date must be within 2 s of the wall clock read before/after raw_print"],
            )
        }
        other => match props_sock::parts(&cli) {
            Some((p, rule, assumptions)) => {
                drive(&cli, p, rule, &assumptions);
            }
            None => {
                eprintln!("vreal: no parts for property {}", other);
                std::process::exit(3)
            }
        },
    };
    drive(&cli, parts, rule, &assumptions)
}
