//! C20 with the accept thread already gone: a child process lowers its own descriptor limit until
//! `accept()` fails (the library then ends its accept thread and reports the error through
//! `recv()`), and only then drops the server.  Dropping must still remove the UNIX-socket path and
//! leave nothing listening, although the wake-up connection of `Drop` cannot be made any more.

use proptest::prelude::*;
use serde::{Deserialize, Serialize};
use std::io::{Read, Write};
use std::time::{Duration, Instant};
use vcore::runner::{fail, Good, Verdict};

#[derive(Clone, Debug, Serialize, Deserialize)]
pub struct FdCase {
    pub unix: bool,
    /// connections opened and answered before the limit is lowered
    pub served_before: usize,
    /// ... of which this many stay open across the failure
    pub kept_open: usize,
}

pub fn fd_strategy() -> BoxedStrategy<FdCase> {
    (any::<bool>(), 0usize..4, 0usize..3).prop_map(|(unix, served_before, kept)| FdCase { unix, served_before, kept_open: kept.min(served_before) }).boxed()
}

#[repr(C)]
struct RLimit {
    cur: u64,
    max: u64,
}
extern "C" {
    fn getrlimit(resource: i32, rlim: *mut RLimit) -> i32;
    fn setrlimit(resource: i32, rlim: *const RLimit) -> i32;
}
const RLIMIT_NOFILE: i32 = 7;

fn max_fd() -> u64 {
    let mut m = 2;
    if let Ok(rd) = std::fs::read_dir("/proc/self/fd") {
        for e in rd.flatten() {
            if let Some(n) = e.file_name().to_str().and_then(|s| s.parse::<u64>().ok()) {
                m = m.max(n);
            }
        }
    }
    m
}

enum Cl {
    U(std::os::unix::net::UnixStream),
    T(std::net::TcpStream),
}

impl Cl {
    fn w(&mut self, b: &[u8]) -> std::io::Result<()> {
        match self {
            Cl::U(s) => s.write_all(b),
            Cl::T(s) => s.write_all(b),
        }
    }
    fn r(&mut self, b: &mut [u8]) -> std::io::Result<usize> {
        match self {
            Cl::U(s) => {
                let _ = s.set_read_timeout(Some(Duration::from_secs(5)));
                s.read(b)
            }
            Cl::T(s) => {
                let _ = s.set_read_timeout(Some(Duration::from_secs(5)));
                s.read(b)
            }
        }
    }
}

/// `vreal c20-child <unix 0/1> <served_before> <kept_open> <path>`: prints one line `RESULT <text>`
pub fn child_main() -> ! {
    let a: Vec<String> = std::env::args().collect();
    let unix = a.get(2).map(|s| s == "1").unwrap_or(true);
    let served_before: usize = a.get(3).and_then(|s| s.parse().ok()).unwrap_or(0);
    let kept_open: usize = a.get(4).and_then(|s| s.parse().ok()).unwrap_or(0);
    let path = a.get(5).cloned().unwrap_or_default();
    let out = |s: String| -> ! {
        println!("RESULT {}", s);
        std::process::exit(0)
    };
    let _ = std::fs::remove_file(&path);
    let server = if unix { tiny_http::Server::http_unix(std::path::Path::new(&path)) } else { tiny_http::Server::http("127.0.0.1:0") };
    let server = match server {
        Ok(s) => s,
        Err(e) => out(format!("SETUP server: {}", e)),
    };
    let tcp_addr = server.server_addr().to_ip();
    let connect = |path: &str| -> std::io::Result<Cl> {
        if unix {
            std::os::unix::net::UnixStream::connect(path).map(Cl::U)
        } else {
            std::net::TcpStream::connect(tcp_addr.unwrap()).map(Cl::T)
        }
    };
    // ordinary service first
    let mut kept = vec![];
    for i in 0..served_before {
        let mut c = match connect(&path) {
            Ok(c) => c,
            Err(e) => out(format!("SETUP connect: {}", e)),
        };
        let _ = c.w(format!("GET /before{} HTTP/1.1\r\nHost: h\r\n\r\n", i).as_bytes());
        match server.recv_timeout(Duration::from_secs(5)) {
            Ok(Some(rq)) => {
                let _ = rq.respond(tiny_http::Response::from_string("ok"));
            }
            other => out(format!("SETUP request before the failure not delivered: {:?}", other.map(|o| o.is_some()))),
        }
        let mut b = [0u8; 256];
        let _ = c.r(&mut b);
        if kept.len() < kept_open {
            kept.push(c);
        }
    }
    std::thread::sleep(Duration::from_millis(50));
    // lower the limit step by step until accept() fails: recv() then reports the error
    let mut lim = RLimit { cur: 0, max: 0 };
    unsafe { getrlimit(RLIMIT_NOFILE, &mut lim) };
    let mut held = vec![];
    let mut accept_failed = false;
    for _round in 0..64 {
        let want = max_fd() + 2;
        let l = RLimit { cur: want.min(lim.max), max: lim.max };
        unsafe { setrlimit(RLIMIT_NOFILE, &l) };
        match connect(&path) {
            Ok(mut c) => {
                let _ = c.w(b"GET /during HTTP/1.1\r\nHost: h\r\n\r\n");
                held.push(c);
            }
            Err(_) => {
                // no descriptor left even for the client side: free room for exactly one
                let l = RLimit { cur: (want + 1).min(lim.max), max: lim.max };
                unsafe { setrlimit(RLIMIT_NOFILE, &l) };
                continue;
            }
        }
        match server.recv_timeout(Duration::from_millis(300)) {
            Ok(Some(rq)) => {
                let _ = rq.respond(tiny_http::Response::from_string("ok"));
            }
            Ok(None) => {}
            Err(_) => {
                accept_failed = true;
                break;
            }
        }
    }
    // (if recv() never reported an error the accept thread may still be gone - it unwraps the
    // result of duplicating the accepted descriptor - or may still be there: what is checked
    // after the drop must hold either way)
    // the accept thread ends on its own; then the server is dropped
    std::thread::sleep(Duration::from_millis(200));
    drop(server);
    let t0 = Instant::now();
    let mut path_gone = !unix;
    while t0.elapsed() < Duration::from_secs(2) {
        if unix && !std::path::Path::new(&path).exists() {
            path_gone = true;
        }
        if path_gone {
            break;
        }
        std::thread::sleep(Duration::from_millis(20));
    }
    // room for descriptors again, then: is anything still listening?
    unsafe { setrlimit(RLIMIT_NOFILE, &lim) };
    drop(held);
    let refused = connect(&path).is_err();
    let _ = std::fs::remove_file(&path);
    drop(kept);
    out(format!("DONE path_gone={} refused={} accept_error_reported={}", path_gone, refused, accept_failed))
}

pub fn fd_test(case: &FdCase) -> Verdict {
    let exe = match std::env::current_exe() {
        Ok(e) => e,
        Err(_) => return Verdict::Pass(Good::trivial().class("scenario-not-set-up")),
    };
    let dir = format!("{}/target/tmp", vcore::report::verif_root());
    let _ = std::fs::create_dir_all(&dir);
    let path = format!("{}/c20fd-{}-{:?}.sock", dir, std::process::id(), std::thread::current().id()).replace(['(', ')'], "");
    let outp = std::process::Command::new(exe)
        .args(["c20-child", if case.unix { "1" } else { "0" }, &case.served_before.to_string(), &case.kept_open.to_string(), &path])
        .stdin(std::process::Stdio::null())
        .stderr(std::process::Stdio::null())
        .output();
    let _ = std::fs::remove_file(&path);
    let outp = match outp {
        Ok(o) => o,
        Err(_) => return Verdict::Pass(Good::trivial().class("scenario-not-set-up")),
    };
    let text = String::from_utf8_lossy(&outp.stdout).to_string();
    let Some(line) = text.lines().find(|l| l.starts_with("RESULT ")) else {
        if outp.status.code().is_some() {
            // the child's own main thread gave up (its descriptor limit is low on purpose)
            return Verdict::Pass(Good::trivial().class("scenario-not-set-up"));
        }
        return fail("C20/accept-failure/child-died".to_string(), format!("the child was killed by a signal ({:?}) before it could report: an abort", outp.status));
    };
    let line = &line[7..];
    if line.starts_with("SETUP") {
        // nothing was learnt from this case (counted, trivial)
        return Verdict::Pass(Good::trivial().class("scenario-not-set-up"));
    }
    if case.unix && line.contains("path_gone=false") {
        return fail("C20/accept-failure/unix-path-not-removed".to_string(), format!("accept() had failed (descriptor limit) and the accept thread was gone; 2 s after the server was dropped its socket path still existed ({})", line));
    }
    if line.contains("refused=false") {
        return fail("C20/accept-failure/still-accepting".to_string(), format!("a connection attempt after the drop was not refused ({})", line));
    }
    let reported = line.contains("accept_error_reported=true");
    let g = if reported { Good::nontrivial() } else { Good::trivial() };
    Verdict::Pass(g.class(if case.unix { "unix" } else { "tcp" }).class(format!("kept-open={}", case.kept_open)).class_if(reported, "accept-error-reported-by-recv"))
}
