//! CONV/sock engine: the whole server of the unmodified build over real TCP / UNIX sockets.
//!
//! One long-lived `Server` per transport per worker.  A case runs a scripted client on a helper
//! thread while the worker thread receives requests and interprets the handler programs.  Every
//! target carries a per-case nonce so that traffic from an earlier case is recognised.

use crate::interp;
use std::io::{Read, Write};
use std::net::{Shutdown, TcpStream};
use std::os::unix::net::UnixStream;
use std::sync::atomic::{AtomicBool, AtomicUsize, Ordering};
use std::sync::{Arc, Mutex};
use std::time::{Duration, Instant};
use tiny_http::Server;
use vcore::conv::{ConvCase, Delivered, Observation, Step, Transport};
use vcore::respparse::{parse_one, ParseErr};
use vcore::wire::render;

pub const WATCHDOG: Duration = Duration::from_secs(20);

pub enum ClientSock {
    Tcp(TcpStream),
    Unix(UnixStream),
}

impl ClientSock {
    fn write_all(&mut self, b: &[u8]) -> std::io::Result<()> {
        match self {
            ClientSock::Tcp(s) => s.write_all(b),
            ClientSock::Unix(s) => s.write_all(b),
        }
    }
    fn read(&mut self, b: &mut [u8]) -> std::io::Result<usize> {
        match self {
            ClientSock::Tcp(s) => s.read(b),
            ClientSock::Unix(s) => s.read(b),
        }
    }
    fn set_timeouts(&self, d: Duration) {
        match self {
            ClientSock::Tcp(s) => {
                let _ = s.set_read_timeout(Some(d));
                let _ = s.set_write_timeout(Some(d));
            }
            ClientSock::Unix(s) => {
                let _ = s.set_read_timeout(Some(d));
                let _ = s.set_write_timeout(Some(d));
            }
        }
    }
    fn shutdown(&self, how: Shutdown) {
        match self {
            ClientSock::Tcp(s) => {
                let _ = s.shutdown(how);
            }
            ClientSock::Unix(s) => {
                let _ = s.shutdown(how);
            }
        }
    }
    /// abortive close: RST on TCP
    fn reset(self) {
        use std::os::unix::io::AsRawFd;
        let fd = match &self {
            ClientSock::Tcp(s) => s.as_raw_fd(),
            ClientSock::Unix(s) => s.as_raw_fd(),
        };
        let l = libc::linger { l_onoff: 1, l_linger: 0 };
        unsafe {
            libc::setsockopt(fd, libc::SOL_SOCKET, libc::SO_LINGER, &l as *const _ as *const libc::c_void, std::mem::size_of::<libc::linger>() as libc::socklen_t);
        }
        drop(self);
    }
    fn local_addr(&self) -> Option<String> {
        match self {
            ClientSock::Tcp(s) => s.local_addr().ok().map(|a| a.to_string()),
            ClientSock::Unix(_) => None,
        }
    }
}

pub struct SockWorker {
    pub idx: usize,
    unix: Option<(Arc<Server>, std::path::PathBuf)>,
    tcp: Option<(Arc<Server>, std::net::SocketAddr)>,
    counter: u32,
    pub stale: usize,
}

impl SockWorker {
    pub fn new(idx: usize) -> SockWorker {
        SockWorker { idx, unix: None, tcp: None, counter: 0, stale: 0 }
    }

    fn unix_server(&mut self) -> (Arc<Server>, std::path::PathBuf) {
        if self.unix.is_none() {
            let dir = format!("{}/target/tmp", vcore::report::verif_root());
            let _ = std::fs::create_dir_all(&dir);
            let path = std::path::PathBuf::from(format!("{}/s{}-{}.sock", dir, std::process::id(), self.idx));
            let _ = std::fs::remove_file(&path);
            // every public way of building a server gets used
            let server = match self.idx % 3 {
                0 => Server::http_unix(&path).expect("bind unix socket"),
                1 => Server::from_listener(std::os::unix::net::UnixListener::bind(&path).expect("bind unix socket"), None).expect("from_listener"),
                _ => Server::new(tiny_http::ServerConfig { addr: tiny_http::ConfigListenAddr::unix_from_path(&path), ssl: None }).expect("Server::new"),
            };
            self.unix = Some((Arc::new(server), path));
        }
        let (s, p) = self.unix.as_ref().unwrap();
        (s.clone(), p.clone())
    }

    fn tcp_server(&mut self) -> (Arc<Server>, std::net::SocketAddr) {
        if self.tcp.is_none() {
            let server = match self.idx % 3 {
                0 => Server::http("127.0.0.1:0").expect("bind tcp"),
                1 => Server::from_listener(std::net::TcpListener::bind("127.0.0.1:0").expect("bind tcp"), None).expect("from_listener"),
                _ => {
                    // a list of candidate addresses
                    let addrs: Vec<std::net::SocketAddr> = vec!["127.0.0.1:0".parse().unwrap(), "127.0.0.2:0".parse().unwrap()];
                    Server::new(tiny_http::ServerConfig { addr: tiny_http::ConfigListenAddr::IP(addrs), ssl: None }).expect("Server::new")
                }
            };
            let addr = server.server_addr().to_ip().unwrap();
            self.tcp = Some((Arc::new(server), addr));
        }
        let (s, a) = self.tcp.as_ref().unwrap();
        (s.clone(), *a)
    }

    pub fn nonce(&mut self) -> [u8; 8] {
        self.counter = self.counter.wrapping_add(1);
        let v = (self.idx as u32) << 24 | (self.counter & 0xff_ffff);
        let s = format!("{:08x}", v);
        let mut n = [0u8; 8];
        n.copy_from_slice(s.as_bytes());
        n
    }

    pub fn server_for(&mut self, t: Transport) -> Arc<Server> {
        match t {
            Transport::Tcp => self.tcp_server().0,
            _ => self.unix_server().0,
        }
    }

    pub fn connect(&mut self, t: Transport) -> std::io::Result<ClientSock> {
        match t {
            Transport::Tcp => {
                let (_, addr) = self.tcp_server();
                let s = TcpStream::connect(addr)?;
                let _ = s.set_nodelay(true);
                Ok(ClientSock::Tcp(s))
            }
            _ => {
                let (_, path) = self.unix_server();
                Ok(ClientSock::Unix(UnixStream::connect(path)?))
            }
        }
    }

    /// Runs one conversation case.  `heads(k)`: does the k-th final response answer a HEAD request.
    pub fn run(&mut self, case: &ConvCase, heads: &(dyn Fn(usize) -> bool + Sync)) -> (Observation, String) {
        self.run_with_order(case, heads, None)
    }

    /// As `run`; with `order = Some(permutation of request indices)` every request is handled on
    /// its own OS thread and the threads enter their finishing action in that order.
    pub fn run_with_order(&mut self, case: &ConvCase, heads: &(dyn Fn(usize) -> bool + Sync), order: Option<&[usize]>) -> (Observation, String) {
        let nonce = self.nonce();
        let nonce_s = String::from_utf8_lossy(&nonce).to_string();
        let rendered = render(&case.conv);
        let bytes = rendered.with_nonce(&nonce);
        let server = self.server_for(case.transport);
        let mut obs = Observation::default();
        // now and then the server has just seen clients that went away in the middle of a head line
        // (its pool workers are reused: nothing of those lines may show in this connection)
        if bytes.len() % 7 == 0 {
            for k in 0..6 {
                if let Ok(mut s) = self.connect(case.transport) {
                    let _ = s.write_all(&[&b"GE"[..], &b"GET /litter HTTP/1.1\r\nHos"[..], &b"POST"[..]][k % 3]);
                    drop(s);
                }
            }
            std::thread::sleep(Duration::from_millis(3));
        }
        let sock = match self.connect(case.transport) {
            Ok(s) => s,
            Err(e) => {
                obs.timeout = Some(format!("connect failed: {}", e));
                return (obs, nonce_s);
            }
        };
        obs.client_addr = sock.local_addr();
        let panics_before = vcore::panics::count();
        let client_done = AtomicBool::new(false);
        let client_len = AtomicUsize::new(0);
        let delivered: Mutex<Vec<Delivered>> = Mutex::new(vec![]);
        let mut stale = 0usize;
        let turn = (Mutex::new(0usize), std::sync::Condvar::new());
        let ends_abruptly = matches!(case.script.last(), Some(Step::Close) | Some(Step::Reset));
        let client_result = std::thread::scope(|scope| {
            let client_done = &client_done;
            let client_len = &client_len;
            let bytes = &bytes;
            let script = &case.script;
            let h = scope.spawn(move || {
                let r = run_client(sock, bytes, script, heads, client_len);
                client_done.store(true, Ordering::SeqCst);
                r
            });
            // handler loop on this thread
            let t0 = Instant::now();
            let mut settle_polls = 0;
            let mut threads = vec![];
            loop {
                let done = client_done.load(Ordering::SeqCst);
                let got = if done { server.try_recv() } else { server.recv_timeout(Duration::from_millis(2)) };
                match got {
                    Ok(Some(rq)) => {
                        settle_polls = 0;
                        match interp::parse_id(rq.url(), &nonce_s) {
                            None if !rq.url().contains(&nonce_s) && rq.url().len() > 10 && is_harness_url(rq.url()) => {
                                // traffic of an earlier case on this server
                                stale += 1;
                                let _ = rq.respond(tiny_http::Response::empty(200));
                            }
                            id => {
                                let idx = id.and_then(|id| case.conv.reqs.iter().position(|r| r.id == id)).unwrap_or(0);
                                let prog = case.prog(idx).clone();
                                if let Some(order) = order {
                                    // own thread per request; entering the finishing action is ordered
                                    let delivered = &delivered;
                                    let nonce_s = nonce_s.clone();
                                    let cl = client_len.load(Ordering::SeqCst);
                                    let turn = &turn;
                                    let order: Vec<usize> = order.to_vec();
                                    let client_done: &AtomicBool = client_done;
                                    threads.push(scope.spawn(move || {
                                        let before = || {
                                            let pos = order.iter().position(|x| *x == idx).unwrap_or(usize::MAX);
                                            let (m, cv) = turn;
                                            let mut t = m.lock().unwrap();
                                            // wait for the predecessors in the chosen order (bounded: a predecessor
                                            // that is never delivered must not block us forever)
                                            let t0 = Instant::now();
                                            while *t < pos && pos != usize::MAX && t0.elapsed() < Duration::from_secs(5) && !client_done.load(Ordering::SeqCst) {
                                                let (g, _) = cv.wait_timeout(t, Duration::from_millis(20)).unwrap();
                                                t = g;
                                            }
                                            if pos != usize::MAX && *t <= pos {
                                                *t = pos + 1;
                                            }
                                            cv.notify_all();
                                        };
                                        let _ = std::panic::catch_unwind(std::panic::AssertUnwindSafe(|| interp::handle_with(rq, &prog, &nonce_s, cl, delivered, &before)));
                                    }));
                                } else if matches!(prog.finish, vcore::conv::Finish::Panic) {
                                    // a panicking handler needs its own thread
                                    let delivered = &delivered;
                                    let nonce_s = nonce_s.clone();
                                    let cl = client_len.load(Ordering::SeqCst);
                                    let jh = scope.spawn(move || {
                                        let _ = std::panic::catch_unwind(std::panic::AssertUnwindSafe(|| interp::handle(rq, &prog, &nonce_s, cl, delivered)));
                                    });
                                    let _ = jh.join();
                                } else {
                                    interp::handle(rq, &prog, &nonce_s, client_len.load(Ordering::SeqCst), &delivered);
                                }
                            }
                        }
                    }
                    Ok(None) => {
                        if done {
                            if !ends_abruptly {
                                break;
                            }
                            // abrupt end: give the connection thread a moment to notice
                            settle_polls += 1;
                            if settle_polls > 3 {
                                break;
                            }
                            std::thread::sleep(Duration::from_millis(3));
                        }
                    }
                    Err(_) => {
                        if done {
                            break;
                        }
                    }
                }
                if t0.elapsed() > WATCHDOG + Duration::from_secs(5) {
                    break;
                }
            }
            for t in threads {
                let _ = t.join();
            }
            h.join()
        });
        self.stale += stale;
        obs.delivered = delivered.into_inner().unwrap();
        match client_result {
            Ok(c) => {
                obs.client = c.bytes;
                obs.client_eof = c.eof;
                obs.client_err = c.err;
                obs.timeout = c.timeout;
                obs.sent_when_msg = c.sent_when_msg;
                obs.script_incomplete = c.script_incomplete;
                obs.exact_end = c.eof && !ends_abruptly;
            }
            Err(_) => obs.timeout = Some("client thread panicked".into()),
        }
        obs.panics = vcore::panics::since(panics_before);
        (obs, nonce_s)
    }
}

fn is_harness_url(url: &str) -> bool {
    // "…/xxxxxxxx/r<id>…" (possibly behind scheme and authority of an absolute-form target)
    let b = url.as_bytes();
    if b.len() < 12 {
        return false;
    }
    for i in 0..=b.len() - 12 {
        if b[i] == b'/' && b[i + 9] == b'/' && b[i + 10] == b'r' && b[i + 1..i + 9].iter().all(|c| c.is_ascii_hexdigit()) && b[i + 11].is_ascii_digit() {
            return i == 0 || url[..i].contains("://");
        }
    }
    false
}

impl Drop for SockWorker {
    fn drop(&mut self) {
        // dropping the servers removes the socket files
        self.unix.take();
        self.tcp.take();
    }
}

pub struct ClientResult {
    pub bytes: Vec<u8>,
    pub eof: bool,
    pub err: Option<String>,
    pub timeout: Option<String>,
    pub sent_when_msg: Vec<usize>,
    pub script_incomplete: Option<String>,
}

struct Progress {
    parsed_to: usize,
    msgs: usize,
    finals: usize,
    stuck: bool,
}

fn advance(bytes: &[u8], p: &mut Progress, heads: &dyn Fn(usize) -> bool, sent: usize, sent_when_msg: &mut Vec<usize>) {
    while !p.stuck && p.parsed_to < bytes.len() {
        match parse_one(&bytes[p.parsed_to..], heads(p.finals)) {
            Ok(m) => {
                if m.framing == vcore::respparse::BodyFraming::UntilClose {
                    p.stuck = true;
                    break;
                }
                p.parsed_to += m.consumed;
                p.msgs += 1;
                sent_when_msg.push(sent);
                if m.status >= 200 {
                    p.finals += 1;
                }
                if m.status == 101 {
                    // raw stream follows
                    p.stuck = true;
                }
            }
            Err(ParseErr::Incomplete) => break,
            Err(ParseErr::Malformed(_)) => {
                p.stuck = true;
            }
        }
    }
}

fn run_client(mut sock: ClientSock, bytes: &[u8], script: &[Step], heads: &(dyn Fn(usize) -> bool + Sync), client_len: &AtomicUsize) -> ClientResult {
    let mut res = ClientResult { bytes: vec![], eof: false, err: None, timeout: None, sent_when_msg: vec![], script_incomplete: None };
    let mut prog = Progress { parsed_to: 0, msgs: 0, finals: 0, stuck: false };
    let mut sent = 0usize;
    let deadline = Instant::now() + WATCHDOG;
    let mut buf = vec![0u8; 65536];
    let mut half_closed = false;
    sock.set_timeouts(Duration::from_millis(50));
    // returns false on EOF / error / deadline
    let mut pump = |sock: &mut ClientSock, res: &mut ClientResult, prog: &mut Progress, sent: usize, until: &dyn Fn(&Progress) -> bool, wait: bool| -> bool {
        loop {
            if until(prog) {
                return true;
            }
            if res.eof || res.err.is_some() {
                return false;
            }
            match sock.read(&mut buf) {
                Ok(0) => {
                    res.eof = true;
                    return until(prog);
                }
                Ok(n) => {
                    res.bytes.extend_from_slice(&buf[..n]);
                    client_len.store(res.bytes.len(), Ordering::SeqCst);
                    advance(&res.bytes, prog, heads, sent, &mut res.sent_when_msg);
                }
                Err(e) if e.kind() == std::io::ErrorKind::WouldBlock || e.kind() == std::io::ErrorKind::TimedOut => {
                    if !wait {
                        return until(prog);
                    }
                    if Instant::now() > deadline {
                        res.timeout = Some(format!("client waited {:?} (have {} messages, {} finals, {} bytes)", WATCHDOG, prog.msgs, prog.finals, res.bytes.len()));
                        return false;
                    }
                }
                Err(e) => {
                    res.err = Some(format!("{:?}", e.kind()));
                    return false;
                }
            }
        }
    };
    for (si, step) in script.iter().enumerate() {
        match step {
            Step::Send { from, to } => {
                let chunk = &bytes[(*from).min(bytes.len())..(*to).min(bytes.len())];
                // write in slices so that a server that stops reading cannot wedge us forever
                let mut off = 0;
                while off < chunk.len() {
                    let n = (chunk.len() - off).min(32768);
                    match sock.write_all(&chunk[off..off + n]) {
                        Ok(()) => {
                            off += n;
                            sent += n;
                        }
                        Err(e) if e.kind() == std::io::ErrorKind::WouldBlock || e.kind() == std::io::ErrorKind::TimedOut => {
                            // drain responses meanwhile
                            pump(&mut sock, &mut res, &mut prog, sent, &|_| false, false);
                            if Instant::now() > deadline {
                                res.timeout = Some("client could not finish sending".into());
                                break;
                            }
                        }
                        Err(e) => {
                            res.script_incomplete = Some(format!("send failed at step {}: {:?}", si, e.kind()));
                            break;
                        }
                    }
                }
                if res.timeout.is_some() || res.script_incomplete.is_some() {
                    break;
                }
            }
            Step::AwaitFinals(n) => {
                let n = *n;
                if !pump(&mut sock, &mut res, &mut prog, sent, &|p| p.finals >= n || p.stuck, true) {
                    if res.timeout.is_none() {
                        res.script_incomplete = Some(format!("connection ended while waiting for {} final responses (have {})", n, prog.finals));
                    }
                    break;
                }
            }
            Step::AwaitMsgs(n) => {
                let n = *n;
                if !pump(&mut sock, &mut res, &mut prog, sent, &|p| p.msgs >= n || p.stuck, true) {
                    if res.timeout.is_none() {
                        res.script_incomplete = Some(format!("connection ended while waiting for message {} (have {})", n, prog.msgs));
                    }
                    break;
                }
            }
            Step::HalfClose => {
                sock.shutdown(Shutdown::Write);
                half_closed = true;
            }
            Step::AwaitEof => {
                pump(&mut sock, &mut res, &mut prog, sent, &|_| false, true);
                if res.timeout.is_some() {
                    res.timeout = Some(format!("no end-of-stream from the server within {:?} although the client kept its sending side open ({} finals received)", WATCHDOG, prog.finals));
                    sock.shutdown(Shutdown::Both);
                    return res;
                }
                half_closed = true;
            }
            Step::Close => {
                sock.shutdown(Shutdown::Both);
                drop(sock);
                return res;
            }
            Step::Reset => {
                sock.reset();
                return res;
            }
        }
    }
    if res.timeout.is_some() {
        // release a handler that may be blocked reading from us
        sock.shutdown(Shutdown::Both);
        return res;
    }
    if !half_closed {
        sock.shutdown(Shutdown::Write);
    }
    // read to the end
    pump(&mut sock, &mut res, &mut prog, sent, &|_| false, true);
    if res.timeout.is_some() {
        sock.shutdown(Shutdown::Both);
    }
    res
}
