//! Per-property parts of the CONV/sock engine.

use crate::sock::SockWorker;
use vcore::cli::Cli;
use vcore::conv::*;
use vcore::oracles::*;
use vcore::gen;
use vcore::runner::{make_part, Part};

pub fn run_case(w: &mut SockWorker, case: &ConvCase) -> (Expected, Observation, String) {
    let exp = expect(case);
    let heads = |k: usize| exp.msgs.get(k).map(|m| m.head).unwrap_or(false);
    let (obs, nonce) = w.run(case, &heads);
    (exp, obs, nonce)
}

pub fn parts<'a>(cli: &'a Cli) -> Option<(Vec<Part<'a>>, &'static str, Vec<&'static str>)> {
    let mut parts: Vec<Part> = vec![];
    let max_len = if cli.thorough { 300_000 } else { 70_000 };
    let sock_assumptions = vec![
        "socket engine: kernel timing is not controlled; a watchdog expiry is reported as inconclusive (exit 2), never as a violation",
        "inputs follow the grammar of DESIGN.md 3.1 (CRLF line ends, token header names, visible-ASCII values and targets)",
    ];
    match cli.property.as_str() {
        "C02" => {
            parts.push(make_part("sock", "CONV/sock", cli.cases(6_000, 400_000), || gen::c02_strategy(gen::transport_strategy()), SockWorker::new, |w, c| {
                let (exp, obs, nonce) = run_case(w, c);
                c02_oracle(c, &exp, &obs, &nonce)
            }));
            Some((parts, "cases: 1-4 pipelined requests per connection from the RFC 7230 head grammar (standard and extension methods, targets up to 1.4 KiB, 0-64 headers with duplicates / empty values / colons / inner SP,HT / OWS variants / letter-case variants), over UNIX sockets and (sampled) TCP; oracle: delivered method, url, version, header list and remote_addr equal what was sent; non-trivial: at least one header; distinct by case value", sock_assumptions))
        }
        "C03" => {
            parts.push(make_part("sock", "CONV/sock", cli.cases(5_000, 300_000), move || gen::c03_strategy(max_len, gen::transport_strategy()), SockWorker::new, |w, c| {
                let (exp, obs, nonce) = run_case(w, c);
                c03_oracle(c, &exp, &obs, &nonce)
            }));
            Some((parts, "cases: one body-bearing request (framing none / Content-Length / chunked with generated chunking, hex case, leading zeros, extensions / Content-Length+chunked / upgrade; length from the boundary set around 1024, 8192, 32768 or random) followed by 0-2 pipelined sentinels; read plan = generated buffer sizes incl. reads after end-of-stream; oracle: bytes read = designated body, sticky EOF, body_length(), sentinels intact; non-trivial: body >= 1 byte and (>= 3 reads or >= 2 chunks or > 1024 bytes)", sock_assumptions))
        }
        "C01" => {
            use proptest::prelude::*;
            let strat = || {
                (2usize..=5)
                    .prop_flat_map(|n| (proptest::collection::vec(gen::finish_no_panic(), n), Just((0..n).collect::<Vec<usize>>()).prop_shuffle(), gen::transport_strategy(), proptest::collection::vec(prop_oneof![Just(0usize), Just(0usize), Just(10usize), Just(1024usize)], n)))
                    .prop_map(|(fins, order, transport, bodies)| {
                        let mut conv = vcore::wire::Conversation::default();
                        let mut progs = vec![];
                        for (i, (f, b)) in fins.into_iter().zip(bodies.into_iter()).enumerate() {
                            let framing = if b > 0 { vcore::wire::Framing::Length { n: b } } else { vcore::wire::Framing::None };
                            conv.reqs.push(gen::build_req(i as u32, if b > 0 { "POST".into() } else { "GET".into() }, String::new(), "HTTP/1.1", vec![vcore::wire::Hdr::new("Host", "h")], framing, None, 1, 0, None, false));
                            // larger responses around the write buffer
                            let f = match f {
                                Finish::Respond { status, body_len, declared, threshold } => Finish::Respond { status, body_len: [body_len, 1023, 1024, 1025, 9000][i % 5], declared, threshold },
                                // a handler that took the raw writer and panics before using it
                                Finish::Drop if b == 10 => Finish::WriterPanic,
                                o => o,
                            };
                            progs.push(Prog { read: ReadPlan::None, finish: f });
                        }
                        let total = gen::total_len(&conv);
                        (ConvCase { conv, progs, script: vec![Step::Send { from: 0, to: total }, Step::HalfClose], transport }, order)
                    })
            };
            parts.push(make_part("sock-threads", "CONV/sock", cli.cases(1_500, 150_000), strat, SockWorker::new, |w, (c, order)| {
                let exp = expect(c);
                let heads = |k: usize| exp.msgs.get(k).map(|m| m.head).unwrap_or(false);
                let (mut obs, _) = w.run_with_order(c, &heads, Some(order));
                if let Some(v) = engine_trouble(&obs) {
                    return v;
                }
                obs.delivered.sort_by_key(|d| d.id.unwrap_or(u32::MAX));
                if let Err(v) = prefix("C01", comp_delivery_sequence(c, &exp, &obs)) {
                    return v;
                }
                let view = client_view(&obs.client, &exp);
                if let Err(v) = prefix("C01", comp_client_stream(&exp, &obs, &view, exp.msgs.len(), false)) {
                    return v;
                }
                let inv = order.iter().enumerate().any(|(i, x)| order[i + 1..].iter().any(|y| y < x));
                let g = if inv { vcore::runner::Good::nontrivial() } else { vcore::runner::Good::trivial() };
                vcore::runner::Verdict::Pass(g.class(format!("n={}", c.conv.reqs.len())).class(format!("transport:{:?}", c.transport)))
            }));
            Some((parts, "part sock-threads: 2-5 pipelined requests over real sockets, every request handled on its own OS thread (respond with sizes around the 1 KiB write buffer / raw writer in parts / drop), the threads enter their answer in a generated permutation; oracle: one message per request in request order on the client side; non-trivial: the permutation has an inversion", sock_assumptions))
        }
        "C09" => {
            parts.push(make_part("sock", "CONV/sock", cli.cases(5_000, 300_000), move || gen::c09_strategy_p(max_len, gen::transport_strategy(), true), SockWorker::new, |w, c| {
                let (exp, obs, nonce) = run_case(w, c);
                c09_oracle(c, &exp, &obs, &nonce)
            }));
            Some((parts, "cases: 1-3 requests with bodies (Content-Length <= 1024 buffered, > 1024 streamed, chunked with generated chunking) each with a generated consumption (none / 1 byte / half / len-1 / exactly len without seeing EOF / to EOF / as_reader only) and finish (respond / drop / raw writer / panicking handler thread), always followed by a sentinel; oracle: delivered sequence and heads = sent, one response per request, no 400; non-trivial: some body is left (partly) unread and a follower exists", sock_assumptions))
        }
        "C10" => {
            parts.push(make_part("sock", "CONV/sock", cli.cases(3_000, 200_000), || gen::c10_strategy(gen::transport_strategy()), SockWorker::new, |w, c| {
                let (exp, obs, _) = run_case(w, c);
                c10_oracle(c, &exp, &obs)
            }));
            Some((parts, "cases: pipeline of 1-4 requests, one of them (every position) malformed: request line with 0/1/2 fields, unrecognised version token, HTTP/2.0 / HTTP/3.0, header line without colon, byte >= 0x80 in request line / header name / header value, unsupported Expect value; the client neither closes nor sends anything more until all expected responses arrived; oracle: delivered ids, status sequence (400/417/505/none), end-of-stream or continued service; non-trivial: the offender is not the first request", sock_assumptions))
        }
        "C12" => {
            parts.push(make_part("sock", "CONV/sock", cli.cases(4_000, 200_000), || gen::c12_strategy(gen::transport_strategy()), SockWorker::new, |w, c| {
                let (exp, obs, _) = run_case(w, c);
                c12_oracle(c, &exp, &obs)
            }));
            Some((parts, "cases: pipeline of 1-4 requests x version {1.1, 1.0} x Connection header variants (absent, close/upgrade in letter-case and list variants, keep-alive, unrelated tokens) at every position, optional bytes after the ending request (further requests, garbage), sent at once or phase by phase; the client keeps its sending side open when the model says the server closes; oracle: delivered ids stop at the ending request, its responses then end-of-stream, late requests on persistent connections are served; non-trivial: bytes follow the ending request", sock_assumptions))
        }
        "C16" => {
            parts.push(make_part("sock", "CONV/sock", cli.cases(5_000, 300_000), || gen::c16_strategy(gen::transport_strategy()), SockWorker::new, |w, c| {
                let (exp, obs, _) = run_case(w, c);
                c16_oracle(c, &exp, &obs)
            }));
            Some((parts, "cases: pipeline of 1-3 requests, one carrying one mutation: SP/HT before a header name (first line / obs-fold), inside it, between name and colon (on Content-Length, Transfer-Encoding, other names), or a Content-Length value that is not a representable plain decimal; the bytes after the offender's head form a complete request under the wrong framing reading; oracle: 400 then end-of-stream, neither offender nor smuggled request delivered; every case is non-trivial", sock_assumptions))
        }
        "C18" => {
            parts.push(make_part("sock", "CONV/sock", cli.cases(2_500, 100_000), || gen::c18_strategy(gen::transport_strategy()), SockWorker::new, |w, c| {
                let (exp, obs, _) = run_case(w, c);
                c18_oracle(c, &exp, &obs)
            }));
            Some((parts, "cases: request with/without Expect: 100-continue (letter case varied) x body length {0,1,5,1024,1025,5000} x Content-Length/chunked x program (answer or drop without touching the body, as_reader x1-3 then read all, read part, as_reader only), client withholds the body until a message arrives; oracle: exactly one 100 before the final response iff the body was asked for, body complete; non-trivial: expectation present", sock_assumptions))
        }
        "C06" => {
            parts.push(make_part("sock", "CONV/sock", cli.cases(3_000, 150_000), || gen::c06_strategy(gen::transport_strategy(), true), SockWorker::new, |w, c| {
                let (exp, obs, _) = run_case(w, c);
                c06_oracle(c, &exp, &obs)
            }));
            Some((parts, "cases: 1-5 pipelined requests (HEAD, bodies of every framing) x read plan {none, part, all} x finish {respond, raw writer, upgrade (last), drop, panic while holding the request on its own thread}; oracle: exactly as many final responses as delivered requests, in order, with the status each finish implies (500 + empty body for drop/panic, 101 + Upgrade for upgrade), then end-of-stream; non-trivial: >= 2 requests and a drop/panic that is not last", sock_assumptions))
        }
        _ => None,
    }
}
