//! PROC engine (C14): adversarial client input against the whole server in a *child process* with
//! a counting allocator and a panic hook; abort / signal of the child is attributed to the case
//! it was running.

use crate::alloc;
use proptest::prelude::*;
use serde::{Deserialize, Serialize};
use std::io::{BufRead, BufReader, Read, Write};
use std::process::{Child, ChildStdin, ChildStdout, Command, Stdio};
use std::sync::atomic::Ordering;
use std::time::{Duration, Instant};
use vcore::runner::{fail, Good, Verdict};

#[derive(Clone, Debug, Serialize, Deserialize, PartialEq, Eq)]
pub enum Piece {
    Lit(Vec<u8>),
    Repeat(Vec<u8>, usize),
}

#[derive(Clone, Debug, Serialize, Deserialize, PartialEq, Eq)]
pub enum Handler {
    RespondNoRead,
    DropNoRead,
    ReadSomeRespond,
    ReadAllRespond,
    ReadAllDrop,
    /// answer with a response whose length is not declared (streamed / buffered by the library)
    RespondUnknownLength,
    /// take every request the client's bytes yield, keep them all, answer them once the client has
    /// sent everything and nothing more arrives (what is held on behalf of the connection is at
    /// its largest then)
    HoldAllThenRespond,
}

#[derive(Clone, Debug, Serialize, Deserialize)]
pub struct RawCase {
    pub kind: String,
    pub pieces: Vec<Piece>,
    pub handler: Handler,
    pub tcp: bool,
    /// declared length (Content-Length / chunk size) far beyond what is sent
    pub declared_beyond_sent: bool,
    /// connect, send, reset at once, `n` times (peer-address path)
    pub reset_storm: usize,
    /// the client closes its socket right after sending (nothing read): the requests are handled
    /// afterwards, every write meets a peer that is gone
    #[serde(default)]
    pub vanish: bool,
}

impl RawCase {
    pub fn bytes(&self) -> Vec<u8> {
        let mut v = vec![];
        for p in &self.pieces {
            match p {
                Piece::Lit(b) => v.extend_from_slice(b),
                Piece::Repeat(b, n) => {
                    for _ in 0..*n {
                        v.extend_from_slice(b);
                    }
                }
            }
        }
        v
    }
}

#[derive(Clone, Debug, Serialize, Deserialize, Default)]
pub struct ChildResult {
    pub panics: Vec<(String, String, String)>,
    pub max_alloc: usize,
    pub sent: usize,
    pub delivered: usize,
    pub timeout: bool,
    pub respond_errs: Vec<String>,
    pub later_conn_served: bool,
    /// peak of the bytes live in the process during the case, above what was live at its start
    #[serde(default)]
    pub live_growth: usize,
}

// ------------------------------------------------------------------------------------------
// child

pub fn child_main() -> ! {
    vcore::panics::install();
    alloc::set_harness(true);
    let stdin = std::io::stdin();
    let mut out = std::io::stdout();
    let unix_path = format!("{}/target/tmp/c14-{}.sock", vcore::report::verif_root(), std::process::id());
    let _ = std::fs::create_dir_all(format!("{}/target/tmp", vcore::report::verif_root()));
    let _ = std::fs::remove_file(&unix_path);
    let unix = tiny_http::Server::http_unix(std::path::Path::new(&unix_path)).expect("bind unix");
    let tcp = tiny_http::Server::http("127.0.0.1:0").expect("bind tcp");
    let tcp_addr = tcp.server_addr().to_ip().unwrap();
    for line in stdin.lock().lines() {
        let Ok(line) = line else { break };
        if line.trim().is_empty() {
            continue;
        }
        let case: RawCase = match serde_json::from_str(&line) {
            Ok(c) => c,
            Err(e) => {
                let _ = writeln!(out, "{{\"error\":\"{}\"}}", e);
                let _ = out.flush();
                continue;
            }
        };
        let res = run_in_child(&case, &unix, &unix_path, &tcp, tcp_addr);
        let _ = writeln!(out, "{}", serde_json::to_string(&res).unwrap());
        let _ = out.flush();
    }
    drop(unix);
    let _ = std::fs::remove_file(&unix_path);
    std::process::exit(0)
}

enum Sock {
    T(std::net::TcpStream),
    U(std::os::unix::net::UnixStream),
}

impl Sock {
    fn w(&mut self, b: &[u8]) -> std::io::Result<()> {
        match self {
            Sock::T(s) => s.write_all(b),
            Sock::U(s) => s.write_all(b),
        }
    }
    fn r(&mut self, b: &mut [u8]) -> std::io::Result<usize> {
        match self {
            Sock::T(s) => s.read(b),
            Sock::U(s) => s.read(b),
        }
    }
    fn timeouts(&self, d: Duration) {
        match self {
            Sock::T(s) => {
                let _ = s.set_read_timeout(Some(d));
                let _ = s.set_write_timeout(Some(d));
            }
            Sock::U(s) => {
                let _ = s.set_read_timeout(Some(d));
                let _ = s.set_write_timeout(Some(d));
            }
        }
    }
    fn shut_w(&self) {
        match self {
            Sock::T(s) => {
                let _ = s.shutdown(std::net::Shutdown::Write);
            }
            Sock::U(s) => {
                let _ = s.shutdown(std::net::Shutdown::Write);
            }
        }
    }
}

fn run_in_child(case: &RawCase, unix: &tiny_http::Server, unix_path: &str, tcp: &tiny_http::Server, tcp_addr: std::net::SocketAddr) -> ChildResult {
    let mut res = ChildResult::default();
    let bytes = case.bytes();
    let server = if case.tcp { tcp } else { unix };
    let panics_before = vcore::panics::count();
    alloc::MAX_SINGLE.store(0, Ordering::SeqCst);
    alloc::ARMED.store(true, Ordering::SeqCst);
    let live_before = alloc::reset_peak();
    if case.reset_storm > 0 {
        for _ in 0..case.reset_storm {
            if let Ok(s) = std::net::TcpStream::connect(tcp_addr) {
                let mut s = s;
                let _ = s.write_all(&bytes);
                use std::os::unix::io::AsRawFd;
                let l = libc::linger { l_onoff: 1, l_linger: 0 };
                unsafe {
                    libc::setsockopt(s.as_raw_fd(), libc::SOL_SOCKET, libc::SO_LINGER, &l as *const _ as *const libc::c_void, std::mem::size_of::<libc::linger>() as libc::socklen_t);
                }
                drop(s);
            }
        }
        // let the workers run into the dead connections; answer whatever still arrives
        let t0 = Instant::now();
        while t0.elapsed() < Duration::from_millis(60) {
            if let Ok(Some(rq)) = tcp.recv_timeout(Duration::from_millis(5)) {
                alloc::set_harness(false);
                let _ = std::panic::catch_unwind(std::panic::AssertUnwindSafe(|| {
                    let _ = rq.respond(tiny_http::Response::empty(200));
                }));
                alloc::set_harness(true);
            }
        }
        res.sent = bytes.len() * case.reset_storm;
    } else {
        let sock = if case.tcp { std::net::TcpStream::connect(tcp_addr).map(Sock::T) } else { std::os::unix::net::UnixStream::connect(unix_path).map(Sock::U) };
        let Ok(mut sock) = sock else {
            res.timeout = true;
            alloc::ARMED.store(false, Ordering::SeqCst);
            return res;
        };
        sock.timeouts(Duration::from_millis(50));
        let done = std::sync::atomic::AtomicBool::new(false);
        let sent = std::sync::atomic::AtomicUsize::new(0);
        std::thread::scope(|scope| {
            let done = &done;
            let sent = &sent;
            let bytes = &bytes;
            let vanish = case.vanish;
            scope.spawn(move || {
                alloc::set_harness(true);
                let deadline = Instant::now() + Duration::from_secs(15);
                let mut off = 0;
                let mut buf = vec![0u8; 65536];
                let mut eof = false;
                while off < bytes.len() && Instant::now() < deadline {
                    let n = (bytes.len() - off).min(65536);
                    match sock.w(&bytes[off..off + n]) {
                        Ok(()) => {
                            off += n;
                            sent.store(off, Ordering::SeqCst);
                        }
                        Err(e) if e.kind() == std::io::ErrorKind::WouldBlock || e.kind() == std::io::ErrorKind::TimedOut => {
                            // drain output meanwhile
                            match sock.r(&mut buf) {
                                Ok(0) => {
                                    eof = true;
                                    break;
                                }
                                _ => {}
                            }
                        }
                        Err(_) => break,
                    }
                }
                if vanish {
                    drop(sock);
                    std::thread::sleep(Duration::from_millis(3));
                    done.store(true, Ordering::SeqCst);
                    return false;
                }
                sock.shut_w();
                while !eof && Instant::now() < deadline {
                    match sock.r(&mut buf) {
                        Ok(0) => eof = true,
                        Ok(_) => {}
                        Err(e) if e.kind() == std::io::ErrorKind::WouldBlock || e.kind() == std::io::ErrorKind::TimedOut => {}
                        Err(_) => eof = true,
                    }
                }
                done.store(true, Ordering::SeqCst);
                !eof
            });
            // handler loop
            let t0 = Instant::now();
            let mut held: Vec<tiny_http::Request> = vec![];
            let mut quiet_since: Option<Instant> = None;
            let hold_all = matches!(case.handler, Handler::HoldAllThenRespond);
            loop {
                if hold_all {
                    // keep everything until the client has sent all its bytes and nothing has arrived
                    // for 60 ms (or 5 s have passed), then answer in order
                    let all_sent = sent.load(Ordering::SeqCst) >= bytes.len();
                    match server.recv_timeout(Duration::from_millis(5)) {
                        Ok(Some(rq)) => {
                            res.delivered += 1;
                            held.push(rq);
                            quiet_since = None;
                            if t0.elapsed() < Duration::from_secs(5) {
                                continue;
                            }
                        }
                        _ => {
                            if quiet_since.is_none() {
                                quiet_since = Some(Instant::now());
                            }
                        }
                    }
                    let quiet = quiet_since.map(|q| q.elapsed() >= Duration::from_millis(60)).unwrap_or(false);
                    if (all_sent && quiet) || t0.elapsed() >= Duration::from_secs(5) || done.load(Ordering::SeqCst) {
                        alloc::set_harness(false);
                        let r = std::panic::catch_unwind(std::panic::AssertUnwindSafe(|| {
                            for rq in held.drain(..) {
                                let _ = rq.respond(tiny_http::Response::from_string("ok"));
                            }
                        }));
                        alloc::set_harness(true);
                        let _ = r;
                        if done.load(Ordering::SeqCst) {
                            // whatever still comes is answered at once
                            while let Ok(Some(rq)) = server.try_recv() {
                                res.delivered += 1;
                                alloc::set_harness(false);
                                let _ = std::panic::catch_unwind(std::panic::AssertUnwindSafe(|| {
                                    let _ = rq.respond(tiny_http::Response::from_string("ok"));
                                }));
                                alloc::set_harness(true);
                            }
                            break;
                        }
                        if t0.elapsed() > Duration::from_secs(20) {
                            res.timeout = true;
                            break;
                        }
                    }
                    continue;
                }
                let d = done.load(Ordering::SeqCst);
                if case.vanish && !d {
                    // nothing is handled before the client is gone
                    std::thread::sleep(Duration::from_millis(1));
                    continue;
                }
                let got = if d { server.try_recv() } else { server.recv_timeout(Duration::from_millis(2)) };
                match got {
                    Ok(Some(mut rq)) => {
                        res.delivered += 1;
                        let h = case.handler.clone();
                        alloc::set_harness(false);
                        let r = std::panic::catch_unwind(std::panic::AssertUnwindSafe(|| {
                            let mut buf = [0u8; 4096];
                            match h {
                                Handler::ReadSomeRespond => {
                                    let _ = rq.as_reader().read(&mut buf);
                                }
                                Handler::ReadAllRespond | Handler::ReadAllDrop => {
                                    let mut guard = 0;
                                    loop {
                                        match rq.as_reader().read(&mut buf) {
                                            Ok(0) | Err(_) => break,
                                            Ok(_) => {}
                                        }
                                        guard += 1;
                                        if guard > 1_000_000 {
                                            break;
                                        }
                                    }
                                }
                                _ => {}
                            }
                            match h {
                                Handler::DropNoRead | Handler::ReadAllDrop => {
                                    drop(rq);
                                    Ok(())
                                }
                                Handler::RespondUnknownLength => rq.respond(tiny_http::Response::new(tiny_http::StatusCode(200), vec![], std::io::Cursor::new(b"streamed body".to_vec()), None, None)),
                                _ => rq.respond(tiny_http::Response::from_string("ok")),
                            }
                        }));
                        alloc::set_harness(true);
                        if let Ok(Err(e)) = r {
                            res.respond_errs.push(format!("{:?}", e.kind()));
                        }
                    }
                    Ok(None) => {
                        if d {
                            break;
                        }
                    }
                    Err(_) => {
                        if d {
                            break;
                        }
                    }
                }
                if t0.elapsed() > Duration::from_secs(20) {
                    res.timeout = true;
                    break;
                }
            }
        });
        res.sent = sent.load(Ordering::SeqCst);
    }
    // the server keeps serving: a fresh plain connection gets its answer
    {
        let sock = if case.tcp { std::net::TcpStream::connect(tcp_addr).map(Sock::T) } else { std::os::unix::net::UnixStream::connect(unix_path).map(Sock::U) };
        if let Ok(mut s) = sock {
            s.timeouts(Duration::from_secs(5));
            let _ = s.w(b"GET /probe HTTP/1.1\r\nHost: h\r\nConnection: close\r\n\r\n");
            let t0 = Instant::now();
            while t0.elapsed() < Duration::from_secs(5) {
                if let Ok(Some(rq)) = server.recv_timeout(Duration::from_millis(20)) {
                    let is_probe = rq.url() == "/probe";
                    alloc::set_harness(false);
                    let _ = std::panic::catch_unwind(std::panic::AssertUnwindSafe(|| {
                        let _ = rq.respond(tiny_http::Response::from_string("probe"));
                    }));
                    alloc::set_harness(true);
                    if is_probe {
                        break;
                    }
                }
            }
            let mut buf = vec![0u8; 4096];
            let mut got = vec![];
            loop {
                match s.r(&mut buf) {
                    Ok(0) | Err(_) => break,
                    Ok(n) => got.extend_from_slice(&buf[..n]),
                }
            }
            res.later_conn_served = got.starts_with(b"HTTP/1.1 200") && got.ends_with(b"probe");
        }
    }
    alloc::ARMED.store(false, Ordering::SeqCst);
    res.max_alloc = alloc::MAX_SINGLE.load(Ordering::SeqCst);
    res.live_growth = (alloc::PEAK.load(Ordering::SeqCst) - live_before).max(0) as usize;
    res.panics = vcore::panics::since(panics_before).into_iter().map(|p| (p.thread, p.message, p.location)).collect();
    res
}

// ------------------------------------------------------------------------------------------
// parent

pub struct ChildProc {
    child: Option<Child>,
    stdin: Option<ChildStdin>,
    stdout: Option<BufReader<ChildStdout>>,
}

impl ChildProc {
    pub fn new(_idx: usize) -> ChildProc {
        ChildProc { child: None, stdin: None, stdout: None }
    }
    fn ensure(&mut self) {
        if self.child.is_some() {
            return;
        }
        let exe = std::env::current_exe().expect("current exe");
        let mut c = Command::new(exe).arg("c14-child").stdin(Stdio::piped()).stdout(Stdio::piped()).stderr(Stdio::null()).spawn().expect("spawn child");
        self.stdin = c.stdin.take();
        self.stdout = Some(BufReader::new(c.stdout.take().unwrap()));
        self.child = Some(c);
    }
    fn kill(&mut self) -> String {
        let mut status = String::from("unknown");
        if let Some(mut c) = self.child.take() {
            self.stdin.take();
            // give it a moment to die by itself (abort), then make sure
            for _ in 0..50 {
                if let Ok(Some(s)) = c.try_wait() {
                    status = format!("{:?}", s);
                    break;
                }
                std::thread::sleep(Duration::from_millis(10));
            }
            if status == "unknown" {
                let _ = c.kill();
                let _ = c.wait();
                status = "killed-by-watchdog".into();
            }
        }
        self.stdout.take();
        status
    }
    /// Ok(result) or Err(how the child died)
    pub fn run(&mut self, case: &RawCase) -> Result<ChildResult, String> {
        self.ensure();
        let line = serde_json::to_string(case).unwrap();
        let w = self.stdin.as_mut().unwrap();
        if writeln!(w, "{}", line).is_err() || w.flush().is_err() {
            return Err(self.kill());
        }
        let mut out = String::new();
        match self.stdout.as_mut().unwrap().read_line(&mut out) {
            Ok(0) | Err(_) => Err(self.kill()),
            Ok(_) => serde_json::from_str(&out).map_err(|e| format!("bad child output: {} ({})", e, out.chars().take(100).collect::<String>())),
        }
    }
}

impl Drop for ChildProc {
    fn drop(&mut self) {
        self.stdin.take();
        if let Some(mut c) = self.child.take() {
            let _ = c.wait();
        }
    }
}

pub fn c14_test(cp: &mut ChildProc, case: &RawCase) -> Verdict {
    let r = cp.run(case);
    let res = match r {
        Err(status) => {
            if status == "killed-by-watchdog" || status.starts_with("bad child output") {
                return Verdict::Inconclusive(format!("child: {}", status));
            }
            return fail(format!("C14/{}/process-died", case.kind), format!("the server process ended while handling the case: {}", status));
        }
        Ok(r) => r,
    };
    if let Some((thread, msg, loc)) = res.panics.first() {
        let p = vcore::panics::PanicRec { thread: thread.clone(), message: msg.clone(), location: loc.clone() };
        return fail(format!("C14/{}/panic/{}", case.kind, vcore::panics::signature_of(&p)), format!("thread {:?} panicked: {} at {}", thread, msg, loc));
    }
    if res.timeout {
        return Verdict::Inconclusive("watchdog in child".into());
    }
    let bound = 64 * 1024 + 64 * res.sent;
    if res.max_alloc > bound {
        return fail(
            format!("C14/{}/allocation-beyond-received", case.kind),
            format!("a single allocation of {} bytes was requested although the client had sent only {} bytes (bound {})", res.max_alloc, res.sent, bound),
        );
    }
    // what is held on behalf of the connection stays in proportion to what it sent: every queued
    // request costs some hundred bytes of bookkeeping, so the factor is generous
    let live_bound = (2 << 20) + 128 * res.sent;
    if res.live_growth > live_bound {
        return fail(
            format!("C14/{}/memory-held-beyond-received", case.kind),
            format!("{} bytes more were live in the server process at the peak of the case than at its start, although the client had sent only {} bytes (bound {})", res.live_growth, res.sent, live_bound),
        );
    }
    if !res.later_conn_served {
        return fail(format!("C14/{}/server-stopped-serving", case.kind), "a fresh connection after the case got no answer".to_string());
    }
    let sent_total = case.bytes().len();
    let nontrivial = case.declared_beyond_sent || sent_total >= 64 * 1024 || case.reset_storm > 0 || case.vanish;
    let mut g = if nontrivial { Good::nontrivial() } else { Good::trivial() };
    let ratio = if res.sent > 0 { res.live_growth / res.sent.max(1) } else { 0 };
    g = g.class(format!("live-growth/sent<={}", if res.live_growth <= (1 << 20) { "(under 1 MiB)".to_string() } else if ratio <= 8 { "8".to_string() } else if ratio <= 32 { "32".to_string() } else if ratio <= 128 { "128".to_string() } else { "more".to_string() }));
    g = g.class(format!("kind:{}", case.kind)).class_if(case.tcp, "tcp").class_if(res.delivered > 0, "delivered").class(format!("handler:{:?}", case.handler));
    Verdict::Pass(g)
}

// ------------------------------------------------------------------------------------------
// generators

fn lit(s: &str) -> Piece {
    Piece::Lit(s.as_bytes().to_vec())
}

fn handler_strategy() -> BoxedStrategy<Handler> {
    proptest::sample::select(vec![Handler::RespondNoRead, Handler::DropNoRead, Handler::ReadSomeRespond, Handler::ReadAllRespond, Handler::ReadAllDrop, Handler::RespondUnknownLength, Handler::RespondUnknownLength, Handler::HoldAllThenRespond]).boxed()
}

pub fn c14_strategy(thorough: bool) -> BoxedStrategy<RawCase> {
    let huge_cl = proptest::sample::select(vec!["1025", "100000", "2147483648", "4294967296", "100000000000000", "9223372036854775808", "18446744073709551615", "18446744073709551616", "1000000000000000000000000000000"]);
    let big = if thorough { 4 << 20 } else { 1 << 20 };
    let declared = (huge_cl, 0usize..200, handler_strategy(), any::<bool>(), proptest::bool::weighted(0.3)).prop_map(|(cl, sent, handler, tcp, pipelined)| {
        let mut pieces = vec![lit(&format!("POST /a HTTP/1.1\r\nHost: h\r\nContent-Length: {}\r\n\r\n", cl)), Piece::Repeat(b"x".to_vec(), sent)];
        if pipelined {
            pieces.insert(0, lit("GET /first HTTP/1.1\r\nHost: h\r\n\r\n"));
        }
        RawCase { kind: "declared-content-length".into(), pieces, handler, tcp: tcp && false, declared_beyond_sent: true, reset_storm: 0, vanish: false }
    });
    let chunk = (1usize..40, proptest::sample::select(vec!["F", "f", "1", "7", "0", "A"]), 0usize..100, handler_strategy(), proptest::bool::weighted(0.3)).prop_map(|(digits, d, sent, handler, ext)| {
        let mut size = d.repeat(digits);
        if ext {
            size.push_str(";x=y");
        }
        let pieces = vec![lit("POST /c HTTP/1.1\r\nHost: h\r\nTransfer-Encoding: chunked\r\n\r\n"), lit(&size), lit("\r\n"), Piece::Repeat(b"y".to_vec(), sent)];
        RawCase { kind: "declared-chunk-size".into(), pieces, handler, tcp: false, declared_beyond_sent: true, reset_storm: 0, vanish: false }
    });
    let many_headers = (prop_oneof![Just(1usize), Just(100usize), Just(5000usize), Just(20000usize), 1usize..20000], handler_strategy(), proptest::sample::select(vec!["a:b\r\n", "X-Header-Name: some value here\r\n", "Cookie: a=b; c=d\r\n", "x:\r\n"])).prop_map(|(n, handler, h)| RawCase {
        kind: "many-headers".into(),
        pieces: vec![lit("GET /h HTTP/1.1\r\n"), Piece::Repeat(h.as_bytes().to_vec(), n), lit("\r\n")],
        handler,
        tcp: false,
        declared_beyond_sent: false,
        reset_storm: 0,
        vanish: false,
    });
    let long_line = (prop_oneof![Just(1usize), Just(1023usize), Just(1024usize), Just(1025usize), Just(65536usize), Just(big), 1usize..big], 0u8..4, handler_strategy(), proptest::bool::weighted(0.5)).prop_map(|(n, place, handler, terminated)| {
        let pieces = match place {
            0 => vec![lit("GET /"), Piece::Repeat(b"p".to_vec(), n), lit(if terminated { " HTTP/1.1\r\nHost: h\r\n\r\n" } else { "" })],
            1 => vec![lit("GET /l HTTP/1.1\r\nX-Long: "), Piece::Repeat(b"v".to_vec(), n), lit(if terminated { "\r\n\r\n" } else { "" })],
            2 => vec![lit("GET /l HTTP/1.1\r\n"), Piece::Repeat(b"N".to_vec(), n), lit(if terminated { ": v\r\n\r\n" } else { "" })],
            _ => vec![Piece::Repeat(b"M".to_vec(), n), lit(if terminated { " / HTTP/1.1\r\n\r\n" } else { "" })],
        };
        RawCase { kind: "long-line".into(), pieces, handler, tcp: false, declared_beyond_sent: false, reset_storm: 0, vanish: false }
    });
    let te = (proptest::collection::vec((proptest::sample::select(vec!["chunked", "identity", "gzip", "trailers", "x"]), proptest::sample::select(vec!["", ";q=NaN", ";q=inf", ";q=-inf", ";q=1e39", ";q=-0", ";q=0.5", ";q=nan", ";q=1e-40", ";q=+1", ";", ";a", "; ", ";;", ";=", ";q", ";q=", "; q=0.5", ";Q=0.5", ";x;q=0.1", ";\t"])), 1..64), handler_strategy(), any::<bool>()).prop_map(|(els, handler, tcp)| {
        let v = els.iter().map(|(c, q)| format!("{}{}", c, q)).collect::<Vec<_>>().join(", ");
        RawCase { kind: "te-list".into(), pieces: vec![lit(&format!("GET /te HTTP/1.1\r\nHost: h\r\nTE: {}\r\n\r\n", v))], handler, tcp, declared_beyond_sent: false, reset_storm: 0, vanish: false }
    });
    let mutated = (proptest::sample::select(vec![
        "GET /m HTTP/1.1\r\nHost: h\r\nAccept: */*\r\n\r\n",
        "POST /m HTTP/1.1\r\nHost: h\r\nContent-Length: 11\r\n\r\nhello world",
        "POST /m HTTP/1.1\r\nHost: h\r\nTransfer-Encoding: chunked\r\n\r\n5\r\nhello\r\n6\r\n world\r\n0\r\n\r\n",
        "POST /m HTTP/1.1\r\nHost: h\r\nExpect: 100-continue\r\nContent-Length: 3\r\n\r\nabc",
        "GET /m HTTP/1.0\r\nConnection: keep-alive\r\n\r\nGET /n HTTP/1.1\r\nHost: h\r\nConnection: upgrade\r\nUpgrade: websocket\r\n\r\nrawdata",
        "HEAD /m HTTP/1.1\r\nHost: h\r\nTE: chunked;q=0.5, identity;q=0.1\r\n\r\n",
        "HEAD /m HTTP/1.0\r\nHost: h\r\n\r\n",
        "HEAD /m HTTP/1.1\r\nHost: h\r\nTE: identity\r\n\r\n",
        "GET /m HTTP/1.0\r\nConnection: keep-alive\r\nTE: chunked\r\n\r\nHEAD /n HTTP/0.9\r\n\r\n",
    ]), proptest::collection::vec((any::<proptest::sample::Index>(), prop_oneof![Just(0u8), Just(0x0d), Just(0x0a), Just(0x80), Just(0xff), Just(b' '), Just(b':'), any::<u8>()], 0u8..3), 1..6), proptest::option::weighted(0.4, any::<proptest::sample::Index>()), handler_strategy(), any::<bool>())
        .prop_map(|(base, muts, trunc, handler, tcp)| {
            let mut b = base.as_bytes().to_vec();
            for (at, byte, op) in muts {
                if b.is_empty() {
                    break;
                }
                let i = at.index(b.len());
                match op {
                    0 => b[i] = byte,
                    1 => b.insert(i, byte),
                    _ => {
                        b.remove(i);
                    }
                }
            }
            if let Some(t) = trunc {
                let k = t.index(b.len() + 1);
                b.truncate(k);
            }
            RawCase { kind: "byte-mutation".into(), pieces: vec![Piece::Lit(b)], handler, tcp, declared_beyond_sent: false, reset_storm: 0, vanish: false }
        });
    let storm = (1usize..6, proptest::sample::select(vec!["GET /s HTTP/1.1\r\nHost: h\r\n\r\n", "", "POST /s HTTP/1.1\r\nContent-Length: 5\r\n\r\nab"])).prop_map(|(n, req)| RawCase { kind: "reset-storm".into(), pieces: vec![lit(req)], handler: Handler::RespondNoRead, tcp: true, declared_beyond_sent: false, reset_storm: n, vanish: false });
    // the same request many times on one connection (deep pipelines; also of rejected requests)
    let repeated = (
        proptest::sample::select(vec![
            ("GET /r HTTP/2.0\r\n\r\n", 20000usize),
            ("GET /r HTTP/3.0\r\nHost: h\r\n\r\n", 20000),
            ("GET /r HTTP/1.1\r\nHost: h\r\n\r\n", 3000),
            ("POST /r HTTP/1.1\r\nContent-Length: 3\r\n\r\nabc", 3000),
            ("POST /r HTTP/1.1\r\nTransfer-Encoding: chunked\r\n\r\n1\r\nx\r\n0\r\n\r\n", 2000),
            ("HEAD /r HTTP/1.0\r\nConnection: keep-alive\r\n\r\n", 3000),
            ("\r\n", 20000),
        ]),
        prop_oneof![Just(1usize), Just(10usize), Just(100usize), Just(1000usize)],
        handler_strategy(),
        any::<bool>(),
    )
        .prop_map(|((req, max), div, handler, tcp)| RawCase { kind: "repeated-request".into(), pieces: vec![Piece::Repeat(req.as_bytes().to_vec(), (max / div).max(1))], handler, tcp, declared_beyond_sent: false, reset_storm: 0, vanish: false });
    let unusual = (proptest::sample::select(vec![
        "HEAD /u HTTP/1.0\r\nHost: h\r\n\r\n",
        "HEAD /u HTTP/1.1\r\nHost: h\r\nTE: identity\r\n\r\n",
        "HEAD /u HTTP/0.9\r\n\r\n",
        "GET /u HTTP/0.9\r\n\r\n",
        "GET /u HTTP/1.0\r\nTE: chunked\r\n\r\n",
        "OPTIONS * HTTP/1.1\r\nHost: h\r\nTE: trailers, chunked;q=0.0\r\n\r\n",
        "HEAD /u HTTP/1.1\r\nHost: h\r\nConnection: close\r\nTE: chunked\r\n\r\n",
    ]), handler_strategy(), any::<bool>()).prop_map(|(req, handler, tcp)| RawCase { kind: "unusual-valid-head".into(), pieces: vec![lit(req)], handler, tcp, declared_beyond_sent: false, reset_storm: 0, vanish: false });
    // pipelines whose client is gone before the first of them is handled
    let vanishing = (proptest::sample::select(vec![
        "GET /first HTTP/1.1\r\nHost: h\r\n\r\nPOST /m HTTP/1.1\r\nHost: h\r\nExpect: 100-continue\r\nContent-Length: 3\r\n\r\nabc",
        "GET /first HTTP/1.1\r\nHost: h\r\n\r\nGET /second HTTP/1.1\r\nHost: h\r\n\r\nPOST /m HTTP/1.1\r\nHost: h\r\nExpect: 100-continue\r\nTransfer-Encoding: chunked\r\n\r\n3\r\nabc\r\n0\r\n\r\n",
        "GET /a HTTP/1.1\r\nHost: h\r\n\r\nGET /b HTTP/1.1\r\nHost: h\r\n\r\nGET /c HTTP/1.1\r\nHost: h\r\n\r\nGET /d HTTP/1.1\r\nHost: h\r\n\r\n",
        "POST /u HTTP/1.1\r\nHost: h\r\nContent-Length: 2000\r\n\r\n",
        "GET /first HTTP/1.1\r\nHost: h\r\n\r\nGET /ws HTTP/1.1\r\nHost: h\r\nConnection: upgrade\r\nUpgrade: websocket\r\n\r\n",
        "GET /first HTTP/1.0\r\nConnection: keep-alive\r\n\r\nHEAD /second HTTP/1.1\r\nHost: h\r\nTE: chunked\r\n\r\nGET /v HTTP/2.0\r\n\r\nGET /bad\r\n\r\n",
    ]), handler_strategy(), any::<bool>()).prop_map(|(req, handler, tcp)| RawCase { kind: "vanishing-client".into(), pieces: vec![lit(req)], handler, tcp, declared_beyond_sent: false, reset_storm: 0, vanish: true });
    // one request with very many header lines, then a pipeline of small requests, all of them held
    // unanswered at once: what the first request needed is not needed again for each follower
    let headers_then_pipeline = (prop_oneof![Just(1000usize), Just(5000usize), Just(20000usize)], prop_oneof![Just(20usize), Just(100usize), Just(300usize)], proptest::sample::select(vec!["a:b\r\n", "x:\r\n", "Cookie: a=b\r\n"]), proptest::sample::select(vec!["GET /s HTTP/1.1\r\n\r\n", "GET /s HTTP/1.1\r\nHost: h\r\n\r\n", "POST /s HTTP/1.1\r\nContent-Length: 2\r\n\r\nab"]), any::<bool>())
        .prop_map(|(n, m, h, follower, tcp)| RawCase {
            kind: "headers-then-pipeline".into(),
            pieces: vec![lit("GET /big HTTP/1.1\r\n"), Piece::Repeat(h.as_bytes().to_vec(), n), lit("\r\n"), Piece::Repeat(follower.as_bytes().to_vec(), m)],
            handler: Handler::HoldAllThenRespond,
            tcp,
            declared_beyond_sent: false,
            reset_storm: 0,
            vanish: false,
        });
    prop_oneof![4 => declared, 3 => chunk, 2 => many_headers, 2 => long_line, 2 => te, 5 => mutated, 1 => storm, 2 => repeated, 3 => unusual, 3 => vanishing, 2 => headers_then_pipeline].boxed()
}
