//! Counting allocator (C14): records the largest single allocation requested on any thread that
//! is not flagged as harness, while armed; and the number of bytes that are live in the whole
//! process, with its peak since the last reset.

use std::alloc::{GlobalAlloc, Layout, System};
use std::cell::Cell;
use std::sync::atomic::{AtomicBool, AtomicIsize, AtomicUsize, Ordering};

pub struct Counting;

pub static ARMED: AtomicBool = AtomicBool::new(false);
pub static MAX_SINGLE: AtomicUsize = AtomicUsize::new(0);
pub static LIVE: AtomicIsize = AtomicIsize::new(0);
pub static PEAK: AtomicIsize = AtomicIsize::new(0);

/// the peak starts again from what is live now; returns that baseline
pub fn reset_peak() -> isize {
    let now = LIVE.load(Ordering::SeqCst);
    PEAK.store(now, Ordering::SeqCst);
    now
}

// (only while armed, i.e. in the C14 child during a case: two contended atomics on every
// allocation would slow every other part of this binary down several times)
fn grow(by: usize) {
    if ARMED.load(Ordering::Relaxed) {
        let now = LIVE.fetch_add(by as isize, Ordering::Relaxed) + by as isize;
        PEAK.fetch_max(now, Ordering::Relaxed);
    }
}

fn shrink(by: usize) {
    if ARMED.load(Ordering::Relaxed) {
        LIVE.fetch_sub(by as isize, Ordering::Relaxed);
    }
}

thread_local! {
    /// true on harness threads outside library calls
    pub static HARNESS: Cell<bool> = const { Cell::new(false) };
}

pub fn set_harness(v: bool) {
    let _ = HARNESS.try_with(|h| h.set(v));
}

fn note(size: usize) {
    if ARMED.load(Ordering::Relaxed) {
        let harness = HARNESS.try_with(|h| h.get()).unwrap_or(true);
        if !harness {
            MAX_SINGLE.fetch_max(size, Ordering::Relaxed);
        }
    }
}

unsafe impl GlobalAlloc for Counting {
    unsafe fn alloc(&self, layout: Layout) -> *mut u8 {
        note(layout.size());
        grow(layout.size());
        System.alloc(layout)
    }
    unsafe fn dealloc(&self, ptr: *mut u8, layout: Layout) {
        shrink(layout.size());
        System.dealloc(ptr, layout)
    }
    unsafe fn alloc_zeroed(&self, layout: Layout) -> *mut u8 {
        note(layout.size());
        grow(layout.size());
        System.alloc_zeroed(layout)
    }
    unsafe fn realloc(&self, ptr: *mut u8, layout: Layout, new_size: usize) -> *mut u8 {
        note(new_size);
        if new_size >= layout.size() {
            grow(new_size - layout.size());
        } else {
            shrink(layout.size() - new_size);
        }
        System.realloc(ptr, layout, new_size)
    }
}
