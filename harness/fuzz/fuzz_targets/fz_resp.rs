#![no_main]
//! Response side (C04, C05, C19): bytes -> RespCase (hand decoder) -> Response::raw_print ->
//! the three oracles.
mod common;
#[path = "../../vreal/src/pure.rs"]
mod pure;

use libfuzzer_sys::fuzz_target;
use vcore::resp;

fuzz_target!(|data: &[u8]| {
    common::init();
    let mut u = arbitrary::Unstructured::new(data);
    let Ok(c) = vcore::undecode::resp_case(&mut u) else { return };
    let out = pure::run_case(&c);
    let j = serde_json::to_value(&c).unwrap();
    common::report("C04", "pure", "FUZZ", resp::oracle_c04(&c, &out), j.clone());
    common::report("C05", "random-te", "FUZZ", resp::oracle_c05(&c, &out), j.clone());
    common::report("C19", "pure", "FUZZ", resp::oracle_c19(&c, &out), j);
});
