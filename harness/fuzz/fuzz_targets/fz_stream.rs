#![no_main]
//! Raw client bytes (no grammar): universal invariants of C14 / C04 / C06 over the in-memory
//! engine.  byte 0 = handler program, the rest = the client's byte stream, then half-close.
mod common;
#[path = "../../vreal/src/interp.rs"]
mod interp;

use libfuzzer_sys::fuzz_target;
use std::io::Read;
use tiny_http_verif_rt as rt;
use vcore::respparse::{parse_one, BodyFraming, ParseErr};
use vcore::runner::{fail, Verdict};

fuzz_target!(|data: &[u8]| {
    common::init();
    if data.len() < 2 {
        return;
    }
    let prog = data[0] % 5;
    let stream = &data[1..];
    let (client, conn) = rt::mem::pair();
    client.send(stream);
    client.close_write();
    let panics_before = vcore::panics::count();
    let mut delivered = 0usize;
    let mut respond_err = None;
    let mut heads = vec![];
    let r = vcore::panics::catch(|| {
        for mut rq in tiny_http::verif::client_connection(conn) {
            delivered += 1;
            heads.push(rq.method().as_str() == "HEAD");
            let mut buf = [0u8; 512];
            match prog {
                1 => {
                    let _ = rq.as_reader().read(&mut buf);
                }
                2 | 3 => {
                    let mut guard = 0;
                    while let Ok(n) = rq.as_reader().read(&mut buf) {
                        guard += 1;
                        if n == 0 || guard > 100_000 {
                            break;
                        }
                    }
                }
                _ => {}
            }
            if prog == 3 || prog == 4 {
                drop(rq);
            } else if let Err(e) = rq.respond(tiny_http::Response::from_string("ok")) {
                respond_err = Some(format!("{:?}", e.kind()));
            }
            if delivered > 2000 {
                break;
            }
        }
    });
    let case = serde_json::json!({ "prog": prog, "stream": stream });
    let ps = vcore::panics::since(panics_before);
    if r.is_err() || !ps.is_empty() {
        let p = ps.first().cloned().unwrap_or(vcore::panics::PanicRec { thread: String::new(), message: "panic".into(), location: String::new() });
        common::report("C14", "fuzz-stream", "FUZZ", fail(format!("C14/raw-stream/panic/{}", vcore::panics::signature_of(&p)), format!("{} at {}", p.message, p.location)), case);
        return;
    }
    if let Some(e) = respond_err {
        common::report("C15", "fuzz-stream", "FUZZ", fail("C15/raw-stream/respond-returned-error", e), case);
        return;
    }
    // whatever the server wrote is a sequence of well-formed, self-delimiting responses, and
    // there is exactly one final response per delivered request (plus at most one automatic
    // error response for the request that ended the connection, and a 505 for every request
    // with a version above 1.1)
    let out = client.output();
    let mut pos = 0;
    let mut finals = 0usize;
    let mut verdict = Verdict::Pass(Default::default());
    while pos < out.len() {
        let head = heads.get(finals).copied().unwrap_or(false);
        // (the library's 505 carries its body whatever the rejected request's method was)
        let plain = parse_one(&out[pos..], false);
        let parsed = match &plain {
            Ok(m) if m.status == 505 => plain,
            _ if head => parse_one(&out[pos..], true),
            _ => plain,
        };
        match parsed {
            Ok(m) => {
                if m.framing == BodyFraming::UntilClose {
                    verdict = fail("C04/raw-stream/needs-connection-close", vcore::resp::head_preview(&out[pos..]));
                    break;
                }
                pos += m.consumed;
                // (a 505 is the library's own answer to a request it does not deliver, and the
                // connection goes on after it: any number of them may appear; the handlers here
                // never answer 505 themselves)
                if m.status >= 200 && m.status != 505 {
                    finals += 1;
                }
                if m.status == 101 {
                    break;
                }
            }
            Err(ParseErr::Incomplete) => {
                verdict = fail("C04/raw-stream/message-incomplete", vcore::resp::head_preview(&out[pos..]));
                break;
            }
            Err(ParseErr::Malformed(s)) => {
                verdict = fail("C04/raw-stream/message-malformed", format!("{}: {}", s, vcore::resp::head_preview(&out[pos..])));
                break;
            }
        }
    }
    if let Verdict::Pass(_) = verdict {
        if finals < delivered || finals > delivered + 1 {
            verdict = fail("C06/raw-stream/response-count", format!("{} requests delivered, {} final responses", delivered, finals));
        } else if !client.output_closed() {
            verdict = fail("C12/raw-stream/no-end-of-stream", "client half-closed, all requests handled, the server never closed its sending side".to_string());
        }
    }
    let prop = match &verdict {
        Verdict::Fail(b) => b.signature.split('/').next().unwrap_or("C04").to_string(),
        _ => "C04".to_string(),
    };
    common::report(&prop, "fuzz-stream", "FUZZ", verdict, case);
});
