//! Shared by the fuzz targets: fuzzer bytes are decoded by hand (vcore::undecode) into the same
//! abstract cases the property checks use, and the same oracles judge the result.  A violation is printed as one line
//! `FUZZ-VIOLATION {json}` and the process aborts, so libFuzzer saves the input.


pub fn report(property: &str, part: &str, engine: &str, verdict: vcore::runner::Verdict, case: serde_json::Value) {
    if let vcore::runner::Verdict::Fail(b) = verdict {
        let known = vcore::report::load_known(property);
        if known.contains(&b.signature) {
            return;
        }
        let rec = vcore::report::FailureRec { property: property.to_string(), part: part.to_string(), engine: engine.to_string(), signature: b.signature, detail: b.detail, seed: 0, case };
        eprintln!("FUZZ-VIOLATION {}", serde_json::to_string(&rec).unwrap());
        std::process::abort();
    }
}

pub fn init() {
    static ONCE: std::sync::Once = std::sync::Once::new();
    ONCE.call_once(|| {
        // record panics instead of printing them: a library panic becomes an oracle failure
        vcore::panics::install();
    });
}
