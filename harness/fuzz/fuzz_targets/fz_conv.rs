#![no_main]
//! Request side through the in-memory engine: bytes -> conversation (hand decoder: 1-4 requests,
//! every framing, Expect, Connection variants, at most one malformation, programs) -> the real
//! ClientConnection -> the oracle of the property the case falls under (C09 / C10 / C16), plus
//! the body oracle of C03.
mod common;
#[path = "../../vreal/src/interp.rs"]
mod interp;
#[path = "../../vhook/src/memrun.rs"]
mod memrun;

use libfuzzer_sys::fuzz_target;
use vcore::conv::expect;
use vcore::oracles;

fuzz_target!(|data: &[u8]| {
    common::init();
    let mut u = arbitrary::Unstructured::new(data);
    let Ok((prop, case)) = vcore::undecode::conv_case(&mut u) else { return };
    let exp = expect(&case);
    let obs = memrun::run_mem(&case, &memrun::MemOpts::default());
    let j = serde_json::to_value(&case).unwrap();
    let verdict = match prop {
        "C10" => oracles::c10_oracle(&case, &exp, &obs),
        "C16" => oracles::c16_oracle(&case, &exp, &obs),
        _ => oracles::c09_oracle(&case, &exp, &obs, "00000000"),
    };
    common::report(prop, "mem", "FUZZ", verdict, j.clone());
    if let Err((k, d)) = vcore::conv::comp_bodies(&case, &obs) {
        common::report("C03", "mem", "FUZZ", vcore::runner::fail(format!("C03/{}", k), d), j);
    }
});
