//! C08 (a) / C20: the thread pool alone under the controlled scheduler.

use crate::sched::{run_exec, tape_strategy, ExecEnd};
use proptest::prelude::*;
use serde::{Deserialize, Serialize};
use std::sync::atomic::{AtomicBool, AtomicUsize, Ordering};
use std::sync::{Arc, Mutex as StdMutex};
use tiny_http::verif::TaskPool;
use tiny_http_verif_rt as rt;
use vcore::runner::{fail, Good, Verdict};

#[derive(Clone, Debug, Serialize, Deserialize)]
pub struct PoolCase {
    /// long-lived tasks (= keep-alive connections) that all must be running at the same time
    pub n: usize,
    /// short tasks run to completion before
    pub warmup: usize,
    /// let (virtual) time pass after the warm-up so that surplus workers retire
    pub idle: bool,
    /// yields of the spawning thread after each spawn (arrival pattern)
    pub yields: Vec<u8>,
    /// each long-lived task is running before the next one is spawned (connections arriving one
    /// after the other, each staying open)
    #[serde(default)]
    pub sequential: bool,
    pub tape: Vec<u8>,
}

pub fn pool_strategy(max_n: usize) -> BoxedStrategy<PoolCase> {
    (1..=max_n, prop_oneof![3 => Just(0usize), 2 => 1usize..8], any::<bool>(), proptest::collection::vec(0u8..3, 1..6), tape_strategy(160))
        .prop_map(|(n, warmup, idle, yields, tape)| PoolCase { n, warmup, idle, yields, sequential: false, tape })
        .boxed()
}

/// far more simultaneous connections than any fixed limit a pool might have: each needs its own
/// worker for as long as it lives
pub fn pool_many_strategy(thorough: bool) -> BoxedStrategy<PoolCase> {
    let ns = if thorough { vec![64usize, 257, 300, 320] } else { vec![257usize, 300] };
    // (the spawning thread yields after every spawn, as an accept loop that takes connections one by
    // one does: every worker has started - and counts - before the next task arrives)
    (proptest::sample::select(ns), prop_oneof![Just(0usize), Just(3usize)], proptest::collection::vec(1u8..3, 1..3))
        .prop_map(|(n, warmup, yields)| PoolCase { n, warmup, idle: false, yields, sequential: true, tape: vec![] })
        .boxed()
}

struct Shared {
    st: rt::sync::Mutex<St>,
    cv: rt::sync::Condvar,
}

#[derive(Default)]
struct St {
    warm_done: usize,
    started: usize,
    finished: usize,
    gate_open: bool,
}

pub fn run_pool_case(case: &PoolCase) -> Verdict {
    if std::env::var("VERIF_TRACE").is_ok() {
        eprintln!("CASE {}", serde_json::to_string(case).unwrap());
    }
    let checks_done = Arc::new(AtomicBool::new(false));
    let viol: Arc<StdMutex<Option<(String, String)>>> = Arc::new(StdMutex::new(None));
    let phase = Arc::new(AtomicUsize::new(0));
    let counters: Arc<StdMutex<(u64, u64, u64)>> = Arc::new(StdMutex::new((0, 0, 0)));
    let c = case.clone();
    let (cd, vi, ph, co) = (checks_done.clone(), viol.clone(), phase.clone(), counters.clone());
    let res = run_exec(&case.tape, checks_done.clone(), move || {
        let clock = rt::begin_execution();
        let pool = TaskPool::new();
        let sh = Arc::new(Shared { st: rt::sync::Mutex::new(St::default()), cv: rt::sync::Condvar::new() });
        let runs: Arc<Vec<AtomicUsize>> = Arc::new((0..c.n + c.warmup).map(|_| AtomicUsize::new(0)).collect());
        for i in 0..c.warmup {
            let sh2 = sh.clone();
            let runs2 = runs.clone();
            pool.spawn(Box::new(move || {
                runs2[i].fetch_add(1, Ordering::SeqCst);
                let mut st = sh2.st.lock().unwrap();
                st.warm_done += 1;
                sh2.cv.notify_all();
            }));
        }
        ph.store(1, Ordering::SeqCst);
        {
            let mut st = sh.st.lock().unwrap();
            while st.warm_done < c.warmup {
                st = sh.cv.wait(st).unwrap();
            }
        }
        if c.idle {
            rt::thread::sleep(std::time::Duration::from_millis(6000));
        }
        ph.store(2, Ordering::SeqCst);
        for i in 0..c.n {
            let sh2 = sh.clone();
            let runs2 = runs.clone();
            let slot = c.warmup + i;
            pool.spawn(Box::new(move || {
                runs2[slot].fetch_add(1, Ordering::SeqCst);
                let mut st = sh2.st.lock().unwrap();
                st.started += 1;
                sh2.cv.notify_all();
                while !st.gate_open {
                    st = sh2.cv.wait(st).unwrap();
                }
                st.finished += 1;
                sh2.cv.notify_all();
            }));
            for _ in 0..c.yields[i % c.yields.len()] {
                rt::thread::yield_now();
            }
            if c.sequential {
                // (a task that never gets a worker shows as a deadlock right here)
                let mut st = sh.st.lock().unwrap();
                while st.started < i + 1 {
                    st = sh.cv.wait(st).unwrap();
                }
            }
        }
        ph.store(3, Ordering::SeqCst);
        // every long-lived task must get a worker while all the others are still running
        {
            let mut st = sh.st.lock().unwrap();
            while st.started < c.n {
                st = sh.cv.wait(st).unwrap();
            }
            st.gate_open = true;
            sh.cv.notify_all();
            while st.finished < c.n {
                st = sh.cv.wait(st).unwrap();
            }
        }
        ph.store(4, Ordering::SeqCst);
        for (i, r) in runs.iter().enumerate() {
            let k = r.load(Ordering::SeqCst);
            if k != 1 {
                *vi.lock().unwrap() = Some(("C08/pool/task-ran-not-exactly-once".into(), format!("task {} ran {} times", i, k)));
            }
        }
        rt::probe::counters(|k| *co.lock().unwrap() = (k.lib_threads_spawned, k.max_live_lib_threads, k.timeouts_fired));
        cd.store(true, Ordering::SeqCst);
        drop(pool);
        clock.finish();
    });
    if let Some((sig, detail)) = viol.lock().unwrap().clone() {
        return fail(sig, detail);
    }
    let (spawned, max_live, timeouts) = *counters.lock().unwrap();
    if std::env::var("VERIF_TRACE").is_ok() {
        eprintln!("TRACE pool: n={} spawned={} max_live={} timeouts={} end={:?}", case.n, spawned, max_live, timeouts, res.end);
    }
    let mut g = if case.n >= 5 { Good { nontrivial: Some(res.stats.trace_hash), classes: vec![], extra_evals: 0 } } else { Good::trivial() };
    g = g
        .class(format!("n={}", case.n))
        .class_if(case.warmup > 0, "warmup")
        .class_if(case.idle && case.warmup > 0, "idle-after-warmup")
        .class_if(res.stats.preemptions > 0, "preempted")
        .class_if(res.stats.nonzero_used > 0, "tape-nonzero-used")
        .class_if(timeouts > 0, "timeout-fired")
        .class_if(spawned > 4, "extra-workers")
        .class(format!("max-live-threads={}", max_live.min(20)));
    match res.end {
        ExecEnd::Completed => Verdict::Pass(g),
        ExecEnd::Deadlock { after_checks: true, .. } => Verdict::Pass(g.class("teardown-leftover")),
        ExecEnd::Deadlock { after_checks: false, blocked } => {
            let p = phase.load(Ordering::SeqCst);
            let sig = match p {
                0 | 1 => "C08/pool/warmup-task-never-ran",
                2 | 3 => "C08/pool/task-queued-while-workers-busy",
                _ => "C08/pool/deadlock",
            };
            fail(sig, format!("no runnable task in phase {} (n={}, warmup={}): a spawned task never got a worker while the others were still running. {}", p, case.n, case.warmup, blocked.chars().take(300).collect::<String>()))
        }
        ExecEnd::Panic(m) => fail("C08/pool/panic", m),
        ExecEnd::StepBound => Verdict::Inconclusive("step bound exceeded".into()),
    }
}
