//! The whole `Server` over the in-memory listener under the controlled scheduler (C08 b, C20,
//! and delivery/answer conservation across connections).

use crate::sched::{run_exec, tape_strategy, ExecEnd};
use proptest::prelude::*;
use serde::{Deserialize, Serialize};
use std::sync::atomic::{AtomicBool, AtomicUsize, Ordering};
use std::sync::{Arc, Mutex as StdMutex};
use std::time::Duration;
use tiny_http::{Response, Server};
use tiny_http_verif_rt as rt;
use tiny_http_verif_rt::mem::MemListener;
use vcore::respparse::{parse_one, ParseErr};
use vcore::runner::{fail, Good, Verdict};

#[derive(Clone, Debug, Serialize, Deserialize)]
pub struct ServerCase {
    /// sizes of the bursts of simultaneously open keep-alive connections
    pub bursts: Vec<usize>,
    /// requests each connection sends (pipelined) before waiting
    pub reqs_per_conn: usize,
    /// application threads; `apis[i % len]` says how thread i receives: 0 recv, 1 recv_timeout(50 ms)
    /// in a loop, 2 try_recv polling, 3 the incoming_requests iterator
    pub handlers: usize,
    #[serde(default)]
    pub apis: Vec<u8>,
    /// connections that send half a request head and then stall (they stay open to the end)
    #[serde(default)]
    pub stalled: usize,
    /// after each burst: this many single short connections, 2 s (virtual) apart, before the
    /// thread count is looked at (light traffic must not keep surplus workers alive)
    #[serde(default)]
    pub trickle: usize,
    /// virtual idle time after each burst, in ms (0 = none)
    pub idle_ms: u64,
    /// 0: drop the server at the end with nothing outstanding; 1: drop it while a request is
    /// held by the application, answer afterwards; 2: as 1, with a second pipelined request of
    /// the same connection still queued at the time of the drop; 3 / 4: nothing held, but a request
    /// that ends its connection (3: `Connection: close`, 4: HTTP/1.0) is queued, unreceived, at the
    /// time of the drop; 5: twelve connections with one unreceived request each at the time of the drop
    pub drop_mode: u8,
    /// handlers wait on their requests: nobody answers before as many requests as there are
    /// application threads (or all of the burst) are held at the same time
    #[serde(default)]
    pub hold: bool,
    /// the first connection of every burst sends a request with a streamed body (2000 bytes) and
    /// `Connection: close` instead of its plain requests; its handler leaves the body alone
    #[serde(default)]
    pub body_close: bool,
    /// `unblock()` is called once before any application thread exists (nobody is blocked): the
    /// application threads then only poll with try_recv (apis = [2])
    #[serde(default)]
    pub stray_unblock: bool,
    /// `unblock()` is called once while the application threads - all of them stepping one
    /// `incoming_requests()` iterator each, again and again (apis = [3]) - are receiving
    #[serde(default)]
    pub mid_unblock: bool,
    /// connections per burst that send a head announcing a small body, part of that body, and
    /// then close their sending side: they get nothing, hold nobody up and leave no thread behind
    #[serde(default)]
    pub truncated: usize,
    /// connections that send a head announcing 2000 body bytes and 500 of them, get their answer
    /// (the handler does not read) and then stay silent until the bursts are over: the thread that
    /// answered waits for the rest of that body, everybody else goes on (two application threads)
    #[serde(default)]
    pub half_body: usize,
    pub tape: Vec<u8>,
}

pub fn server_strategy(max_burst: usize, for_c20: bool) -> BoxedStrategy<ServerCase> {
    (
        proptest::collection::vec(1..=max_burst, 1..=if for_c20 { 3 } else { 2 }),
        1usize..=2,
        1usize..=2,
        if for_c20 { prop_oneof![1 => Just(0u64), 3 => Just(6000u64), 1 => Just(5200u64)].boxed() } else { prop_oneof![3 => Just(0u64), 1 => Just(6000u64)].boxed() },
        0u8..6,
        tape_strategy(300),
        (proptest::collection::vec(prop_oneof![3 => Just(0u8), 1 => Just(1u8), 1 => Just(2u8), 1 => Just(3u8)], 1..3), prop_oneof![3 => Just(0usize), 1 => 1usize..4]),
    )
        .prop_map(move |(bursts, reqs_per_conn, handlers, idle_ms, drop_mode, tape, (apis, stalled))| {
            // light traffic after a big burst (C20 only): 4-6 single connections 2 s apart
            let big = bursts.iter().any(|b| *b >= 9);
            let trickle = if for_c20 && big && idle_ms > 0 && tape.len() % 2 == 0 { 4 + tape.len() % 3 } else { 0 };
            // (C08/C07) every other case: the handlers hold their requests until all of them have one
            let hold = !for_c20 && tape.len() % 2 == 1;
            let body_close = !for_c20 && tape.len() % 3 == 1;
            let stray_unblock = tape.len() % 7 == 3;
            let mid_unblock = tape.len() % 7 == 5;
            let apis = if stray_unblock { vec![2] } else if mid_unblock { vec![3] } else { apis };
            let truncated = if tape.len() % 5 == 1 { 1 + tape.len() % 2 } else { 0 };
            let half_body = if !for_c20 && tape.len() % 11 == 6 { 1 } else { 0 };
            if half_body > 0 {
                return ServerCase { bursts, reqs_per_conn, handlers: 2, apis: vec![0], stalled: 0, trickle: 0, idle_ms: 0, drop_mode, hold: false, body_close: true, stray_unblock: false, mid_unblock: false, truncated, half_body, tape };
            }
            ServerCase { bursts, reqs_per_conn, handlers, apis, stalled: if idle_ms > 0 { 0 } else { stalled }, trickle, idle_ms, drop_mode, hold, body_close, stray_unblock, mid_unblock, truncated, half_body, tape }
        })
        .boxed()
}

struct Gate {
    st: rt::sync::Mutex<GateSt>,
    cv: rt::sync::Condvar,
}

#[derive(Default)]
struct GateSt {
    have_response: usize,
    open: bool,
}

fn count_finals(out: &[u8]) -> (usize, Vec<String>, bool) {
    let mut pos = 0;
    let mut n = 0;
    let mut rids = vec![];
    while pos < out.len() {
        match parse_one(&out[pos..], false) {
            Ok(m) => {
                pos += m.consumed;
                if m.status >= 200 {
                    n += 1;
                    rids.push(format!("{}:{}", m.status, m.header("X-Rid").unwrap_or("-")));
                }
            }
            Err(ParseErr::Incomplete) => break,
            Err(ParseErr::Malformed(_)) => return (n, rids, true),
        }
    }
    (n, rids, false)
}

#[derive(Default, Clone)]
struct Out {
    violations: Vec<(String, String)>,
    max_live_after_idle: u64,
    idle_checks: usize,
    served: usize,
    drop_checked: bool,
    lib_threads_spawned: u64,
}

pub fn run_server_case(prop: &'static str, case: &ServerCase) -> Verdict {
    let checks_done = Arc::new(AtomicBool::new(false));
    let out: Arc<StdMutex<Out>> = Arc::new(StdMutex::new(Out::default()));
    let phase = Arc::new(AtomicUsize::new(0));
    let c = case.clone();
    let (cd, o2, ph) = (checks_done.clone(), out.clone(), phase.clone());
    let res = run_exec(&case.tape, checks_done.clone(), move || {
        let clock = rt::begin_execution();
        let listener = MemListener::new();
        let server = Arc::new(Server::from_listener(listener.clone(), None).expect("server"));
        let viol = |k: &str, d: String| {
            let mut o = o2.lock().unwrap();
            if o.violations.is_empty() {
                o.violations.push((k.to_string(), d));
            }
        };
        let unblocks_issued = Arc::new(AtomicUsize::new(0));
        let empty_returns = Arc::new(AtomicUsize::new(0));
        if c.stray_unblock {
            unblocks_issued.fetch_add(1, Ordering::SeqCst);
            server.unblock();
        }
        // application threads
        let stop = Arc::new(AtomicBool::new(false));
        let hdone = Arc::new(Gate { st: rt::sync::Mutex::new(GateSt::default()), cv: rt::sync::Condvar::new() });
        let mut handlers = vec![];
        let held = Arc::new((rt::sync::Mutex::new(0usize), rt::sync::Condvar::new()));
        let hold_target = Arc::new(AtomicUsize::new(0));
        for hi in 0..c.handlers {
            let s = server.clone();
            let (held, hold_target, hold) = (held.clone(), hold_target.clone(), c.hold);
            let api = if c.apis.is_empty() { 0 } else { c.apis[hi % c.apis.len()] };
            let stop = stop.clone();
            let hdone = hdone.clone();
            let (issued, empties, o4) = (unblocks_issued.clone(), empty_returns.clone(), o2.clone());
            handlers.push(shuttle::thread::spawn(move || {
                let answer = |rq: tiny_http::Request| {
                    // what is handed over is what a client sent: GET (or POST) /r<id>
                    if !matches!(rq.method(), tiny_http::Method::Get | tiny_http::Method::Post) || !rq.url().starts_with("/r") {
                        let mut o = o4.lock().unwrap();
                        if o.violations.is_empty() {
                            o.violations.push(("delivered-request-differs-from-what-was-sent".into(), format!("the application was handed {:?} {:?}; every client sends GET or POST /r<id>", rq.method(), rq.url())));
                        }
                    }
                    if hold {
                        let mut d = held.0.lock().unwrap();
                        *d += 1;
                        held.1.notify_all();
                        while *d < hold_target.load(Ordering::SeqCst) {
                            d = held.1.wait(d).unwrap();
                        }
                    }
                    let rid = rq.url().trim_start_matches("/r").to_string();
                    let resp = Response::from_string("ok").with_header(tiny_http::Header::from_bytes(&b"X-Rid"[..], rid.as_bytes()).unwrap());
                    let _ = rq.respond(resp);
                };
                match api {
                    1 => loop {
                        match s.recv_timeout(Duration::from_millis(50)) {
                            Ok(Some(rq)) => answer(rq),
                            Ok(None) => {
                                if stop.load(Ordering::SeqCst) {
                                    break;
                                }
                            }
                            Err(_) => break,
                        }
                    },
                    2 => {
                        let mut empty = 0;
                        loop {
                            let r = if empty >= 30 { s.recv().map(Some) } else { s.try_recv() };
                            match r {
                                Ok(Some(rq)) => {
                                    empty = 0;
                                    answer(rq)
                                }
                                Ok(None) => {
                                    if stop.load(Ordering::SeqCst) {
                                        break;
                                    }
                                    empty += 1;
                                    rt::thread::yield_now();
                                }
                                Err(_) => break,
                            }
                        }
                    }
                    3 => {
                        // one iterator, stepped again after it came back empty-handed: every
                        // empty-handed step is paid for by one unblock() call
                        let mut it = s.incoming_requests();
                        loop {
                            match it.next() {
                                Some(rq) => answer(rq),
                                None => {
                                    let n = empties.fetch_add(1, Ordering::SeqCst) + 1;
                                    if n > issued.load(Ordering::SeqCst) {
                                        let mut o = o4.lock().unwrap();
                                        if o.violations.is_empty() {
                                            o.violations.push(("receive-came-back-empty-handed-without-an-unblock".into(), format!("{} steps of incoming_requests() iterators returned nothing, unblock() was called {} times", n, issued.load(Ordering::SeqCst))));
                                        }
                                        break;
                                    }
                                    if stop.load(Ordering::SeqCst) {
                                        break;
                                    }
                                }
                            }
                        }
                    }
                    _ => {
                        while let Ok(rq) = s.recv() {
                            answer(rq);
                        }
                    }
                }
                let mut st = hdone.st.lock().unwrap();
                st.have_response += 1;
                hdone.cv.notify_all();
            }));
        }
        if c.mid_unblock {
            unblocks_issued.fetch_add(1, Ordering::SeqCst);
            server.unblock();
        }
        // connections that stall in the middle of a request head: they occupy a worker each and
        // must not hold anybody else up
        let mut stalled_clients = vec![];
        for _ in 0..c.stalled {
            if let Ok(cl) = listener.connect() {
                cl.send(b"GET /stalled HTTP/1.1\r\nHos");
                stalled_clients.push(cl);
            }
        }
        // a client that stops in the middle of a body nobody reads: it has its answer, and the
        // application thread that gave it is waiting for the rest of that body
        let mut half_body_clients = vec![];
        for k in 0..c.half_body {
            if let Ok(cl) = listener.connect() {
                let mut wire = format!("POST /r{} HTTP/1.1\r\nHost: h\r\nContent-Length: 2000\r\n\r\n", 800000 + k).into_bytes();
                wire.extend_from_slice(&[b'h'; 500]);
                cl.send(&wire);
                cl.wait_output(|o, closed| count_finals(o).0 >= 1 || closed);
                half_body_clients.push(cl);
            }
        }
        let mut next_id = 0usize;
        for (bi, b) in c.bursts.iter().copied().enumerate() {
            ph.store(10 + bi, Ordering::SeqCst);
            // (all requests of the earlier bursts have been delivered and answered by now)
            // (every other time the connection with the body is a persistent one, and its further
            // requests follow the unread body)
            let body_keep = c.body_close && (c.tape.len() % 2 == 0 || c.half_body > 0);
            let burst_total = if c.body_close && !body_keep { (b - 1) * c.reqs_per_conn + 1 } else { b * c.reqs_per_conn };
            hold_target.store(next_id + c.handlers.min(burst_total), Ordering::SeqCst);
            let gate = Arc::new(Gate { st: rt::sync::Mutex::new(GateSt::default()), cv: rt::sync::Condvar::new() });
            let mut clients = vec![];
            for ci in 0..b {
                let with_body = c.body_close && ci == 0;
                let per_conn = if with_body && !body_keep { 1 } else { c.reqs_per_conn };
                let ids: Vec<usize> = (0..per_conn).map(|k| next_id + k).collect();
                next_id += per_conn;
                let l = listener.clone();
                let g = gate.clone();
                let o3 = o2.clone();
                clients.push(shuttle::thread::spawn(move || {
                    let Ok(cl) = l.connect() else {
                        o3.lock().unwrap().violations.push(("connect-refused-while-serving".into(), "connect failed although the server is alive".into()));
                        let mut st = g.st.lock().unwrap();
                        st.have_response += 1;
                        g.cv.notify_all();
                        return;
                    };
                    let mut wire = vec![];
                    for (k, id) in ids.iter().enumerate() {
                        if with_body && k == 0 {
                            wire.extend_from_slice(format!("POST /r{} HTTP/1.1\r\nHost: h\r\n{}Content-Length: 2000\r\n\r\n", id, if body_keep { "" } else { "Connection: close\r\n" }).as_bytes());
                            wire.extend_from_slice(&[b'b'; 2000]);
                        } else if ci % 3 == 1 {
                            // an HTTP/1.0 client that asks for a persistent connection in a token list
                            wire.extend_from_slice(format!("GET /r{} HTTP/1.0\r\nHost: h\r\nConnection: TE, Keep-Alive\r\n\r\n", id).as_bytes());
                        } else {
                            wire.extend_from_slice(format!("GET /r{} HTTP/1.1\r\nHost: h\r\n\r\n", id).as_bytes());
                        }
                    }
                    cl.send(&wire);
                    let want = ids.len();
                    // this connection's answers must arrive while all the others stay open
                    let got = cl.wait_output(|o, closed| count_finals(o).0 >= want || count_finals(o).2 || closed);
                    let (n, rids, bad) = count_finals(&got);
                    let expect: Vec<String> = ids.iter().map(|i| format!("200:{}", i)).collect();
                    if bad || n != want || rids != expect {
                        o3.lock().unwrap().violations.push(("wrong-responses".into(), format!("connection with requests {:?} got {:?} (malformed={})", ids, rids, bad)));
                    }
                    {
                        let mut st = g.st.lock().unwrap();
                        st.have_response += 1;
                        g.cv.notify_all();
                        while !st.open {
                            st = g.cv.wait(st).unwrap();
                        }
                    }
                    cl.close_write();
                    cl.wait_output(|_, closed| closed);
                }));
            }
            // connections whose client gives up inside a small body
            let mut truncated_clients = vec![];
            for _ in 0..c.truncated {
                if let Ok(cl) = listener.connect() {
                    cl.send(b"POST /rtrunc HTTP/1.1\r\nHost: h\r\nContent-Length: 10\r\n\r\nabc");
                    cl.close_write();
                    truncated_clients.push(cl);
                }
            }
            {
                let mut st = gate.st.lock().unwrap();
                while st.have_response < b {
                    st = gate.cv.wait(st).unwrap();
                }
                st.open = true;
                gate.cv.notify_all();
            }
            for cl in &truncated_clients {
                // the server gives the connection up: its side ends too
                cl.wait_output(|_, closed| closed);
            }
            for cjoin in clients {
                let _ = cjoin.join();
            }
            o2.lock().unwrap().served += b;
            if c.idle_ms > 0 && c.trickle > 0 && b >= 9 {
                // light traffic: one short connection every 2 s; the workers that were started for
                // the burst have nothing to do all along and must retire all the same
                ph.store(20 + bi, Ordering::SeqCst);
                for k in 0..c.trickle {
                    rt::thread::sleep(Duration::from_millis(2000));
                    if let Ok(cl) = listener.connect() {
                        cl.send(format!("GET /r{} HTTP/1.1\r\nHost: h\r\n\r\n", 900000 + k).as_bytes());
                        cl.wait_output(|o, closed| count_finals(o).0 >= 1 || closed);
                        cl.close_write();
                        cl.wait_output(|_, closed| closed);
                    }
                }
                // at most the workers that served one of the last three connections (within the idle
                // period) may still be around, besides accept + 4
                let mut live = rt::probe::live_lib_threads();
                let mut polls = 0;
                while live > 8 && polls < 6 {
                    rt::thread::sleep(Duration::from_millis(500));
                    live = rt::probe::live_lib_threads();
                    polls += 1;
                }
                let mut o = o2.lock().unwrap();
                o.idle_checks += 1;
                if live > 8 {
                    drop(o);
                    viol("threads-not-reclaimed-under-light-traffic", format!("{} library threads alive after a burst of {} connections followed by {} single connections 2 s apart (expected <= accept + 4 + 3)", live, b, c.trickle));
                }
            } else if c.idle_ms > 0 {
                ph.store(20 + bi, Ordering::SeqCst);
                rt::thread::sleep(Duration::from_millis(c.idle_ms));
                // workers beyond the minimum have been idle for the idle period: they must be gone
                // (give the ones whose timer has fired a chance to run)
                let mut live = rt::probe::live_lib_threads();
                let mut polls = 0;
                while live > 5 && polls < 40 {
                    rt::thread::sleep(Duration::from_millis(500));
                    live = rt::probe::live_lib_threads();
                    polls += 1;
                }
                if std::env::var("VERIF_TRACE").is_ok() {
                    eprintln!("TRACE idle: live={} polls={} now_ns={} pending_timers={} counters: waits={} timed={} fired={}", live, polls, rt::probe::now_ns(), rt::probe::pending_timers(), rt::probe::counters(|k| k.condvar_waits), rt::probe::counters(|k| k.timed_waits), rt::probe::counters(|k| k.timeouts_fired));
                }
                let mut o = o2.lock().unwrap();
                o.idle_checks += 1;
                o.max_live_after_idle = o.max_live_after_idle.max(live);
                if live > 5 {
                    drop(o);
                    viol("threads-not-reclaimed", format!("{} library threads alive {} ms (+20 s) after a burst of {} connections; baseline is accept + 4", live, c.idle_ms, b));
                }
            }
        }
        for cl in &half_body_clients {
            cl.close_write();
        }
        ph.store(30, Ordering::SeqCst);
        hold_target.store(0, Ordering::SeqCst);
        // release the application threads: each unblock() releases exactly one receive call
        stop.store(true, Ordering::SeqCst);
        loop {
            let d = hdone.st.lock().unwrap().have_response;
            if d >= c.handlers {
                break;
            }
            unblocks_issued.fetch_add(1, Ordering::SeqCst);
            server.unblock();
            let mut st = hdone.st.lock().unwrap();
            while st.have_response == d {
                st = hdone.cv.wait(st).unwrap();
            }
        }
        for h in handlers {
            let _ = h.join();
        }
        for cl in &stalled_clients {
            cl.close_write();
        }
        ph.store(31, Ordering::SeqCst);
        let server = match Arc::try_unwrap(server) {
            Ok(s) => s,
            Err(_) => {
                viol("harness", "server still shared".into());
                return;
            }
        };
        if c.drop_mode == 5 {
            // a dozen connections with one request each, none of them received, and the server goes;
            // then the clients go: nothing of the server stays behind
            let mut cls = vec![];
            for k in 0..12 {
                if let Ok(cl) = listener.connect() {
                    cl.send(format!("GET /r{} HTTP/1.1\r\nHost: h\r\n\r\n", 7000 + k).as_bytes());
                    cls.push(cl);
                }
            }
            let mut spins = 0;
            while cls.iter().any(|cl| cl.consumed() == 0) && spins < 400 {
                rt::thread::yield_now();
                spins += 1;
            }
            rt::thread::sleep(Duration::from_millis(50));
            ph.store(32, Ordering::SeqCst);
            drop(server);
            ph.store(33, Ordering::SeqCst);
            if listener.connect().is_ok() {
                viol("accepting-after-drop", "connect succeeded after the server had been dropped".into());
            }
            rt::thread::sleep(Duration::from_millis(100));
            for cl in &cls {
                cl.close_write();
            }
        } else if c.drop_mode >= 3 {
            // a request that ends its connection (Connection: close / HTTP/1.0 without keep-alive) has
            // been parsed and queued, nobody has received it, and the server goes: the connection's
            // worker must not stay behind
            let cl = listener.connect().expect("connect before drop");
            let wire: &[u8] = if c.drop_mode == 3 { b"GET /r9997 HTTP/1.1\r\nHost: h\r\nConnection: close\r\n\r\n" } else { b"GET /r9997 HTTP/1.0\r\n\r\n" };
            cl.send(wire);
            let mut spins = 0;
            while cl.consumed() < wire.len() && spins < 200 {
                rt::thread::yield_now();
                spins += 1;
            }
            for _ in 0..3 {
                rt::thread::yield_now();
            }
            ph.store(32, Ordering::SeqCst);
            drop(server);
            ph.store(33, Ordering::SeqCst);
            if listener.connect().is_ok() {
                viol("accepting-after-drop", "connect succeeded after the server had been dropped".into());
            }
            rt::thread::sleep(Duration::from_millis(100));
            cl.close_write();
        } else if c.drop_mode >= 1 {
            // a request handed to the application before the drop is still answered afterwards
            let cl = listener.connect().expect("connect before drop");
            let wire: &[u8] = if c.drop_mode == 2 { b"GET /r9999 HTTP/1.1\r\nHost: h\r\n\r\nGET /r9998 HTTP/1.1\r\nHost: h\r\n\r\n" } else { b"GET /r9999 HTTP/1.1\r\nHost: h\r\n\r\n" };
            cl.send(wire);
            // (unblock tokens left over from releasing the application threads may come first)
            let mut rq = server.recv();
            let mut tries = 0;
            while rq.is_err() && tries < c.handlers + 2 {
                rq = server.recv();
                tries += 1;
            }
            if c.drop_mode == 2 {
                // let the connection read (and queue) the second request before the drop
                let mut spins = 0;
                while cl.consumed() < wire.len() && spins < 200 {
                    rt::thread::yield_now();
                    spins += 1;
                }
                for _ in 0..3 {
                    rt::thread::yield_now();
                }
            }
            ph.store(32, Ordering::SeqCst);
            drop(server);
            ph.store(33, Ordering::SeqCst);
            if listener.connect().is_ok() {
                viol("accepting-after-drop", "connect succeeded after the server had been dropped".into());
            }
            match rq {
                Ok(rq) => {
                    let r = rq.respond(Response::from_string("late"));
                    if let Err(e) = r {
                        viol("respond-after-drop-failed", format!("{:?}", e.kind()));
                    }
                    let got = cl.output();
                    let (n, _, bad) = count_finals(&got);
                    let first_is_late = parse_one(&got, false).map(|m| m.body == b"late").unwrap_or(false);
                    if n < 1 || bad || !first_is_late {
                        viol("answer-after-drop-lost", format!("client has {} bytes: {:?}", got.len(), vcore::resp::head_preview(&got)));
                    }
                }
                Err(e) => viol("request-before-drop-not-delivered", format!("{:?}", e.kind())),
            }
            cl.close_write();
            cl.wait_output(|_, closed| closed);
        } else {
            drop(server);
            ph.store(33, Ordering::SeqCst);
            if listener.connect().is_ok() {
                viol("accepting-after-drop", "connect succeeded after the server had been dropped".into());
            }
        }
        if prop == "C20" {
            // every connection has ended by now (the one held across the drop included): once the
            // idle period has passed no thread of the dropped server is left
            ph.store(34, Ordering::SeqCst);
            let mut live = rt::probe::live_lib_threads();
            let mut polls = 0;
            while live > 0 && polls < 30 {
                rt::thread::sleep(Duration::from_millis(500));
                live = rt::probe::live_lib_threads();
                polls += 1;
            }
            if live > 0 {
                viol("threads-left-after-drop", format!("{} library threads are still alive 15 s (virtual) after the server was dropped and its last connection ended (drop mode {})", live, c.drop_mode));
            }
        }
        {
            let mut o = o2.lock().unwrap();
            o.drop_checked = true;
            o.lib_threads_spawned = rt::probe::counters(|k| k.lib_threads_spawned);
        }
        cd.store(true, Ordering::SeqCst);
        clock.finish();
    });
    let o = out.lock().unwrap().clone();
    let ph = phase.load(Ordering::SeqCst);
    match &res.end {
        ExecEnd::Completed | ExecEnd::Deadlock { after_checks: true, .. } => {}
        ExecEnd::Deadlock { after_checks: false, blocked } => {
            let sig = match ph {
                10..=19 => "connection-waits-for-another",
                20..=29 => "idle-phase-stuck",
                30 | 31 => "unblock-did-not-release-application-thread",
                32 | 33 => "drop-blocked",
                _ => "deadlock",
            };
            return fail(
                format!("{}/server/{}", prop, sig),
                format!("no runnable task in phase {} (1x = burst x: every connection waits for its own responses while the others stay open; 3x = shutdown): {}", ph, blocked.chars().take(400).collect::<String>()),
            );
        }
        ExecEnd::Panic(m) => return fail(format!("{}/server/panic", prop), m.clone()),
        ExecEnd::StepBound => return Verdict::Inconclusive(format!("step bound exceeded in phase {} (drop mode {})", ph, case.drop_mode)),
    }
    if let Some((k, d)) = o.violations.first() {
        return fail(format!("{}/server/{}", prop, k), d.clone());
    }
    let max_burst = case.bursts.iter().copied().max().unwrap_or(0);
    let nontrivial = if prop == "C08" { max_burst >= 5 } else { max_burst > 4 || case.drop_mode >= 1 };
    let mut g = if nontrivial { Good { nontrivial: Some(res.stats.trace_hash), classes: vec![], extra_evals: 0 } } else { Good::trivial() };
    g = g
        .class(format!("max-burst={}", max_burst))
        .class(format!("drop-mode={}", case.drop_mode))
        .class_if(o.idle_checks > 0, "idle-phase-checked")
        .class_if(case.stalled > 0, "stalled-connections")
        .class_if(case.hold, "handlers-hold-their-requests")
        .class_if(case.body_close, "streamed-body-on-a-closing-connection")
        .class_if(case.stray_unblock, "stray-unblock-then-try_recv-only")
        .class_if(case.mid_unblock, "unblock-while-iterators-are-stepped")
        .class_if(case.truncated > 0, "client-gives-up-inside-a-small-body")
        .class_if(case.half_body > 0, "client-stalls-inside-an-unread-body")
        .class_if(case.trickle > 0, "light-traffic-after-burst")
        .class_if(case.apis.iter().any(|a| *a != 0), "mixed-receive-apis")
        .class_if(o.lib_threads_spawned > 5, "extra-workers-spawned")
        .class_if(res.stats.preemptions > 0, "preempted")
        .class_if(matches!(res.end, ExecEnd::Deadlock { .. }), "teardown-leftover");
    Verdict::Pass(g)
}

// ------------------------------------------------------------------------------------------
// C08 at the edge of a receive timeout: one application thread in recv_timeout(T), others in
// recv(); a connection's request arrives a generated number of nanoseconds before or after T.
// Whoever is woken, the request is delivered and answered without anything else having to happen
// on any other connection.

#[derive(Clone, Debug, Serialize, Deserialize)]
pub struct ServerEdgeCase {
    /// the timeout of the timed receiver, in microseconds
    pub timeout_us: u64,
    /// when the client connects and sends, relative to the end of the timeout, in nanoseconds
    pub offset_ns: i64,
    /// application threads blocked in recv() beside the timed one
    pub blocked: usize,
    /// connections that are open and silent all along
    pub idle_conns: usize,
    /// the client's requests (pipelined)
    pub reqs: usize,
    pub tape: Vec<u8>,
}

pub fn server_edge_strategy() -> BoxedStrategy<ServerEdgeCase> {
    (
        prop_oneof![Just(1_000u64), Just(2_000u64), Just(50_000u64), 1_000u64..200_000],
        prop_oneof![3 => -999_999i64..0, 1 => Just(-1_000_000i64), 1 => Just(-1i64), 1 => Just(0i64), 1 => 0i64..500_000, 1 => -5_000_000i64..-1_000_000],
        1usize..=2,
        0usize..=5,
        1usize..=2,
        tape_strategy(120),
    )
        .prop_map(|(timeout_us, offset_ns, blocked, idle_conns, reqs, tape)| ServerEdgeCase { timeout_us, offset_ns, blocked, idle_conns, reqs, tape })
        .boxed()
}

pub fn run_server_edge_case(prop: &'static str, case: &ServerEdgeCase) -> Verdict {
    let checks_done = Arc::new(AtomicBool::new(false));
    let out: Arc<StdMutex<Out>> = Arc::new(StdMutex::new(Out::default()));
    let phase = Arc::new(AtomicUsize::new(0));
    let c = case.clone();
    let (cd, o2, ph) = (checks_done.clone(), out.clone(), phase.clone());
    let res = run_exec(&case.tape, checks_done.clone(), move || {
        let clock = rt::begin_execution();
        let listener = MemListener::new();
        let server = Arc::new(Server::from_listener(listener.clone(), None).expect("server"));
        let mut idle = vec![];
        for _ in 0..c.idle_conns {
            if let Ok(cl) = listener.connect() {
                idle.push(cl);
            }
        }
        let answer = |rq: tiny_http::Request| {
            let rid = rq.url().trim_start_matches("/r").to_string();
            let resp = Response::from_string("ok").with_header(tiny_http::Header::from_bytes(&b"X-Rid"[..], rid.as_bytes()).unwrap());
            let _ = rq.respond(resp);
        };
        // the timed receiver: one call, whatever it returns
        let s = server.clone();
        let t_us = c.timeout_us;
        let timed = shuttle::thread::spawn(move || {
            if let Ok(Some(rq)) = s.recv_timeout(Duration::from_micros(t_us)) {
                answer(rq);
            }
        });
        let mut blocked = vec![];
        for _ in 0..c.blocked {
            let s = server.clone();
            blocked.push(shuttle::thread::spawn(move || {
                while let Ok(rq) = s.recv() {
                    answer(rq);
                }
            }));
        }
        ph.store(1, Ordering::SeqCst);
        // the client: arrives around the end of the timeout
        let at_ns = (c.timeout_us as i64 * 1000 + c.offset_ns).max(0) as u64;
        rt::thread::sleep(Duration::from_nanos(at_ns));
        ph.store(2, Ordering::SeqCst);
        match listener.connect() {
            Ok(cl) => {
                let mut wire = vec![];
                for k in 0..c.reqs {
                    wire.extend_from_slice(format!("GET /r{} HTTP/1.1\r\nHost: h\r\n\r\n", k).as_bytes());
                }
                cl.send(&wire);
                let want = c.reqs;
                let got = cl.wait_output(|o, closed| count_finals(o).0 >= want || count_finals(o).2 || closed);
                let (n, rids, bad) = count_finals(&got);
                let expect: Vec<String> = (0..want).map(|i| format!("200:{}", i)).collect();
                if bad || n != want || rids != expect {
                    o2.lock().unwrap().violations.push(("wrong-responses".into(), format!("the connection got {:?} (malformed={})", rids, bad)));
                }
                ph.store(3, Ordering::SeqCst);
                cl.close_write();
                cl.wait_output(|_, closed| closed);
            }
            Err(_) => o2.lock().unwrap().violations.push(("connect-refused-while-serving".into(), "connect failed although the server is alive".into())),
        }
        ph.store(4, Ordering::SeqCst);
        let _ = timed.join();
        ph.store(5, Ordering::SeqCst);
        for _ in 0..c.blocked {
            server.unblock();
        }
        for b in blocked {
            let _ = b.join();
        }
        for cl in &idle {
            cl.close_write();
        }
        cd.store(true, Ordering::SeqCst);
        drop(server);
        clock.finish();
    });
    let o = out.lock().unwrap().clone();
    let ph = phase.load(Ordering::SeqCst);
    match &res.end {
        ExecEnd::Completed | ExecEnd::Deadlock { after_checks: true, .. } => {}
        ExecEnd::Deadlock { after_checks: false, blocked } => {
            let sig = match ph {
                2 => "request-stays-queued-while-a-receiver-is-blocked",
                5 => "unblock-did-not-release-application-thread",
                _ => "deadlock",
            };
            return fail(
                format!("{}/server-edge/{}", prop, sig),
                format!("no runnable task in phase {} (2 = the connection waits for its answers while {} thread(s) are blocked in recv(); the timed receiver had {} us, the request came {} ns relative to its end): {}", ph, case.blocked, case.timeout_us, case.offset_ns, blocked.chars().take(300).collect::<String>()),
            );
        }
        ExecEnd::Panic(m) => return fail(format!("{}/server-edge/panic", prop), m.clone()),
        ExecEnd::StepBound => return Verdict::Inconclusive("step bound exceeded".into()),
    }
    if let Some((k, d)) = o.violations.first() {
        return fail(format!("{}/server-edge/{}", prop, k), d.clone());
    }
    let in_last_ms = case.offset_ns < 0 && case.offset_ns > -1_000_000;
    let mut g = if in_last_ms { Good { nontrivial: Some(res.stats.trace_hash), classes: vec![], extra_evals: 0 } } else { Good::trivial() };
    g = g
        .class(if in_last_ms { "arrival:last-millisecond" } else if case.offset_ns >= 0 { "arrival:after-the-timeout" } else { "arrival:earlier" })
        .class(format!("blocked-receivers={}", case.blocked))
        .class(format!("idle-connections={}", case.idle_conns))
        .class_if(res.stats.preemptions > 0, "preempted");
    Verdict::Pass(g)
}
