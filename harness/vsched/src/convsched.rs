//! Conversations under the controlled scheduler: the real `ClientConnection` over an in-memory
//! connection, one task for the connection, generated handler tasks (C01, C06, C10, C11).

use crate::interp;
use crate::sched::{run_exec, tape_strategy, ExecEnd, ExecResult};
use proptest::prelude::*;
use serde::{Deserialize, Serialize};
use std::sync::atomic::{AtomicBool, AtomicUsize, Ordering};
use std::sync::{Arc, Mutex as StdMutex};
use tiny_http::Request;
use tiny_http_verif_rt as rt;
use vcore::conv::*;
use vcore::wire::render;

#[derive(Clone, Debug, Serialize, Deserialize)]
pub struct SchedConvCase {
    pub case: ConvCase,
    /// handler tasks: each handles these request indices, in ascending order
    pub groups: Vec<Vec<usize>>,
    /// a handler task first waits until *all* its requests have been delivered (read-ahead)
    pub collect_first: bool,
    /// when every request has its own task: order in which handlers enter their finishing action
    pub enter_order: Option<Vec<usize>>,
    /// cut points of the client's byte stream into segments
    pub cuts: Vec<usize>,
    /// C11: the handler of this request reads its body, then — still holding the request
    /// unanswered — waits until the successor has been delivered
    #[serde(default)]
    pub hold_after_read: Option<usize>,
    /// None: the whole client stream (and the half-close) is there before the server starts;
    /// Some(delays): a client task sends segment k after a pause of delays[k % len] virtual ms
    /// (0 = just a scheduling point), then pauses once more and half-closes
    #[serde(default)]
    pub feed: Option<Vec<u16>>,
    /// every k-th write on the transport reports `Interrupted` (0 = never): transparent to anyone
    /// who writes with write_all / io::copy
    #[serde(default)]
    pub intr: u8,
    /// C11: the handler of this request answers through the raw writer and, having written and
    /// flushed the whole response, keeps the writer until the successor has been delivered
    #[serde(default)]
    pub hold_writer: Option<usize>,
    /// per request index (cyclic): virtual milliseconds its handler lets pass between the end of
    /// its reading and its finishing action (virtual time only advances when every other task is
    /// blocked: whatever else can run, runs first)
    #[serde(default)]
    pub linger: Vec<u16>,
    pub tape: Vec<u8>,
}

struct Slots {
    st: rt::sync::Mutex<SlotSt>,
    cv: rt::sync::Condvar,
}

struct SlotSt {
    slots: Vec<Option<Request>>,
    unknown: Vec<Request>,
    conn_done: bool,
    entered: Vec<bool>,
    arrived: Vec<bool>,
}

pub struct SchedObs {
    pub obs: Observation,
    pub exec: ExecResult,
    pub enter_seq: Vec<usize>,
    pub phase: usize,
    pub delivered_when_collected: Option<usize>,
    pub out_len_when_collected: Option<usize>,
    /// first request whose finishing action had returned while its response was not yet on the
    /// client's side: (request index, final responses on the wire, final responses due)
    pub late: Option<(usize, usize, usize)>,
}

/// number of complete final responses at the start of `out` (HEAD-ness per expected message)
fn finals_on_wire(out: &[u8], heads: &[bool]) -> usize {
    let mut pos = 0;
    let mut n = 0;
    while pos < out.len() {
        let head = heads.get(n).copied().unwrap_or(false);
        match vcore::respparse::parse_one(&out[pos..], head) {
            Ok(m) => {
                pos += m.consumed;
                if m.status >= 200 {
                    n += 1;
                }
            }
            Err(_) => break,
        }
    }
    n
}

pub fn run_sched_conv(sc: &SchedConvCase) -> SchedObs {
    let checks_done = Arc::new(AtomicBool::new(false));
    let result: Arc<StdMutex<Observation>> = Arc::new(StdMutex::new(Observation::default()));
    let enter_seq: Arc<StdMutex<Vec<usize>>> = Arc::new(StdMutex::new(vec![]));
    let phase = Arc::new(AtomicUsize::new(0));
    let collected: Arc<StdMutex<(Option<usize>, Option<usize>)>> = Arc::new(StdMutex::new((None, None)));
    let late: Arc<StdMutex<Option<(usize, usize, usize)>>> = Arc::new(StdMutex::new(None));
    let late2 = late.clone();
    let exp0 = expect(&sc.case);
    // for each request index: how many final responses are due once it has been answered
    let due: Vec<Option<usize>> = (0..sc.case.conv.reqs.len())
        .map(|i| {
            let produces = matches!(sc.case.prog(i).finish, Finish::Respond { .. } | Finish::Writer { .. } | Finish::Drop);
            if produces && exp0.msgs.iter().any(|m| m.req_idx == i) {
                Some(exp0.msgs.iter().filter(|m| m.req_idx <= i).count())
            } else {
                None
            }
        })
        .collect();
    let heads0: Vec<bool> = exp0.msgs.iter().map(|m| m.head).collect();
    let scc = sc.clone();
    let (cd, res2, es2, ph2, col2) = (checks_done.clone(), result.clone(), enter_seq.clone(), phase.clone(), collected.clone());
    let exec = run_exec(&sc.tape, checks_done.clone(), move || {
        let sc = &scc;
        let clock = rt::begin_execution();
        let rendered = render(&sc.case.conv);
        let bytes = rendered.with_nonce(b"00000000");
        let (client, conn) = rt::mem::pair();
        if sc.intr > 0 {
            client.set_write_interrupts(sc.intr as usize);
            // (with an odd period the transport also takes short writes)
            if sc.intr % 2 == 1 {
                client.set_write_max(600);
            }
        }
        // the client stream in the generated segmentation: queued up front, or sent by a client
        // task with pauses
        let mut cuts: Vec<usize> = sc.cuts.iter().map(|c| (*c).min(bytes.len())).collect();
        cuts.sort();
        cuts.dedup();
        let mut segments: Vec<Vec<u8>> = vec![];
        let mut from = 0;
        for c in cuts.into_iter().chain(std::iter::once(bytes.len())) {
            if c > from {
                segments.push(bytes[from..c].to_vec());
                from = c;
            }
        }
        let half_close = sc.case.script.iter().any(|s| matches!(s, Step::HalfClose));
        let client_task = match &sc.feed {
            None => {
                for seg in &segments {
                    client.send(seg);
                }
                if half_close {
                    client.close_write();
                }
                None
            }
            Some(delays) => {
                let (cl, delays) = (client.clone(), delays.clone());
                Some(shuttle::thread::spawn(move || {
                    let pause = |k: usize| {
                        let d = if delays.is_empty() { 0 } else { delays[k % delays.len()] };
                        if d > 0 {
                            rt::thread::sleep(std::time::Duration::from_millis(d as u64));
                        } else {
                            rt::thread::yield_now();
                        }
                    };
                    for (k, seg) in segments.iter().enumerate() {
                        pause(k);
                        cl.send(seg);
                    }
                    pause(segments.len());
                    if half_close {
                        cl.close_write();
                    }
                }))
            }
        };
        let n = sc.case.conv.reqs.len();
        let slots = Arc::new(Slots { st: rt::sync::Mutex::new(SlotSt { slots: (0..n).map(|_| None).collect(), unknown: vec![], conn_done: false, entered: vec![false; n], arrived: vec![false; n] }), cv: rt::sync::Condvar::new() });
        let sink: Arc<StdMutex<Vec<Delivered>>> = Arc::new(StdMutex::new(vec![]));
        // connection task
        let s2 = slots.clone();
        let ids: Vec<u32> = sc.case.conv.reqs.iter().map(|r| r.id).collect();
        let conn_task = shuttle::thread::spawn(move || {
            let it = tiny_http::verif::client_connection(conn);
            for rq in it {
                let id = interp::parse_id(rq.url(), "00000000");
                let mut st = s2.st.lock().unwrap();
                match id.and_then(|id| ids.iter().position(|x| *x == id)) {
                    Some(idx) if st.slots[idx].is_none() && !st.arrived[idx] => {
                        st.slots[idx] = Some(rq);
                        st.arrived[idx] = true;
                    }
                    _ => st.unknown.push(rq),
                }
                s2.cv.notify_all();
            }
            let mut st = s2.st.lock().unwrap();
            st.conn_done = true;
            s2.cv.notify_all();
        });
        ph2.store(1, Ordering::SeqCst);
        // handler tasks
        let mut handlers = vec![];
        for (gi, group) in sc.groups.iter().cloned().enumerate() {
            let s3 = slots.clone();
            let sink3 = sink.clone();
            let case3 = sc.case.clone();
            let es3 = es2.clone();
            let col3 = col2.clone();
            let client3 = client.clone();
            let collect_first = sc.collect_first && gi == 0;
            let hold_after_read = sc.hold_after_read;
            let sc_hold_writer = sc.hold_writer;
            let (late3, due3, heads3, client5) = (late2.clone(), due.clone(), heads0.clone(), client.clone());
            let enter_order = sc.enter_order.clone();
            let linger = sc.linger.clone();
            handlers.push(shuttle::thread::spawn(move || {
                if collect_first {
                    // every request of the group must become available while none is answered
                    let st = s3.st.lock().unwrap();
                    let mut st = st;
                    loop {
                        let have = group.iter().filter(|i| st.arrived[**i]).count();
                        if have == group.len() || st.conn_done {
                            let mut c = col3.lock().unwrap();
                            c.0 = Some(have);
                            c.1 = Some(client3.output_len());
                            break;
                        }
                        st = s3.cv.wait(st).unwrap();
                    }
                }
                for idx in group {
                    let rq = {
                        let mut st = s3.st.lock().unwrap();
                        loop {
                            if let Some(rq) = st.slots[idx].take() {
                                break Some(rq);
                            }
                            if st.conn_done {
                                break None;
                            }
                            st = s3.cv.wait(st).unwrap();
                        }
                    };
                    let Some(rq) = rq else { continue };
                    let prog = case3.prog(idx).clone();
                    let s4 = s3.clone();
                    let es4 = es3.clone();
                    let order = enter_order.clone();
                    let hold = hold_after_read;
                    let col4 = col3.clone();
                    let client4 = client3.clone();
                    let linger_ms = if linger.is_empty() { 0 } else { linger[idx % linger.len()] };
                    let before = move || {
                        if linger_ms > 0 {
                            rt::thread::sleep(std::time::Duration::from_millis(linger_ms as u64));
                        }
                        if hold == Some(idx) {
                            // the body has been read to its end: the successor must now arrive
                            // although this request is still unanswered
                            let mut st = s4.st.lock().unwrap();
                            while idx + 1 < st.slots.len() && !st.arrived[idx + 1] && !st.conn_done {
                                st = s4.cv.wait(st).unwrap();
                            }
                            let have = if idx + 1 < st.slots.len() && st.arrived[idx + 1] { 1 } else { 0 };
                            let mut c = col4.lock().unwrap();
                            c.0 = Some(have);
                            c.1 = Some(client4.output_len());
                        }
                        if let Some(order) = &order {
                            // wait until the handler that precedes us in the chosen order entered
                            if let Some(pos) = order.iter().position(|x| *x == idx) {
                                if pos > 0 {
                                    let pred = order[pos - 1];
                                    let mut st = s4.st.lock().unwrap();
                                    while !st.entered[pred] && !st.conn_done_and_missing(pred) {
                                        st = s4.cv.wait(st).unwrap();
                                    }
                                }
                            }
                        }
                        let mut st = s4.st.lock().unwrap();
                        st.entered[idx] = true;
                        es4.lock().unwrap().push(idx);
                        s4.cv.notify_all();
                    };
                    let s5 = s3.clone();
                    let hold_writer = sc_hold_writer;
                    let held = move || {
                        if hold_writer == Some(idx) {
                            let mut st = s5.st.lock().unwrap();
                            while idx + 1 < st.slots.len() && !st.arrived[idx + 1] && !st.conn_done {
                                st = s5.cv.wait(st).unwrap();
                            }
                        }
                    };
                    interp::handle_with2(rq, &prog, "00000000", 0, &sink3, &before, &held);
                    // the finishing action has returned: the response (and all earlier ones) is
                    // with the client, whoever else still holds a request of this connection
                    if let Some(want) = due3.get(idx).copied().flatten() {
                        let have = finals_on_wire(&client5.output(), &heads3);
                        if have < want {
                            let mut l = late3.lock().unwrap();
                            if l.is_none() {
                                *l = Some((idx, have, want));
                            }
                        }
                    }
                }
            }));
        }
        ph2.store(2, Ordering::SeqCst);
        for h in handlers {
            let _ = h.join();
        }
        ph2.store(3, Ordering::SeqCst);
        if let Some(t) = client_task {
            let _ = t.join();
        }
        let _ = conn_task.join();
        ph2.store(4, Ordering::SeqCst);
        // requests nobody claimed (not part of the conversation, or never expected)
        let unknown: Vec<Request> = std::mem::take(&mut slots.st.lock().unwrap().unknown);
        for rq in unknown {
            let d = interp::describe(&rq, "00000000");
            sink.lock().unwrap().push(d);
            drop(rq);
        }
        let leftover: Vec<Request> = slots.st.lock().unwrap().slots.iter_mut().filter_map(|s| s.take()).collect();
        for rq in leftover {
            let d = interp::describe(&rq, "00000000");
            sink.lock().unwrap().push(d);
            drop(rq);
        }
        let mut obs = Observation::default();
        obs.delivered = std::mem::take(&mut *sink.lock().unwrap());
        obs.client = client.output();
        obs.client_eof = client.output_closed();
        obs.server_closed_write = Some(client.output_closed());
        obs.server_consumed = Some(client.consumed());
        obs.exact_end = true;
        *res2.lock().unwrap() = obs;
        cd.store(true, Ordering::SeqCst);
        clock.finish();
    });
    let mut obs = std::mem::take(&mut *result.lock().unwrap());
    // delivered order = order of the sink; sort by request index for the sequence oracle when
    // handlers ran concurrently (each id at most once is still checked)
    obs.delivered.sort_by_key(|d| d.id.unwrap_or(u32::MAX));
    let c = collected.lock().unwrap().clone();
    let enter_seq_v: Vec<usize> = enter_seq.lock().unwrap().clone();
    let late_v = *late.lock().unwrap();
    SchedObs { obs, exec, enter_seq: enter_seq_v, phase: phase.load(Ordering::SeqCst), delivered_when_collected: c.0, out_len_when_collected: c.1, late: late_v }
}

impl SlotSt {
    fn conn_done_and_missing(&self, idx: usize) -> bool {
        // the predecessor will never enter: its request was never delivered
        self.conn_done && self.slots[idx].is_none() && !self.entered[idx]
    }
}

pub fn inversions(seq: &[usize]) -> usize {
    let mut n = 0;
    for i in 0..seq.len() {
        for j in i + 1..seq.len() {
            if seq[i] > seq[j] {
                n += 1;
            }
        }
    }
    n
}

pub fn exec_trouble(prop: &str, class: &str, so: &SchedObs) -> Option<vcore::runner::Verdict> {
    match &so.exec.end {
        ExecEnd::Completed => None,
        ExecEnd::Deadlock { after_checks: true, .. } => None,
        ExecEnd::Deadlock { after_checks: false, blocked } => Some(vcore::runner::fail(
            format!("{}/{}/stall", prop, class),
            format!("no runnable task in phase {} (1 = handlers starting, 2 = handlers running, 3 = connection task): {}", so.phase, blocked.chars().take(400).collect::<String>()),
        )),
        ExecEnd::Panic(m) => Some(vcore::runner::fail(format!("{}/{}/panic", prop, class), m.clone())),
        ExecEnd::StepBound => Some(vcore::runner::Verdict::Inconclusive("step bound exceeded".into())),
    }
}

// ------------------------------------------------------------------------------------------
// generators

use vcore::gen;
use vcore::wire::{Conversation, Framing, Hdr, ReqSpec};

fn partition_groups(n: usize, mask: u32) -> Vec<Vec<usize>> {
    // bit i set => request i+1 starts a new group
    let mut groups = vec![vec![0usize]];
    for i in 1..n {
        if (mask >> (i - 1)) & 1 == 1 {
            groups.push(vec![i]);
        } else {
            groups.last_mut().unwrap().push(i);
        }
    }
    groups
}

pub fn c01_finish() -> BoxedStrategy<Finish> {
    prop_oneof![
        5 => (proptest::sample::select(vec![0usize, 1, 1000, 1023, 1024, 1025, 3000, 9000, 40000]), proptest::bool::weighted(0.8), proptest::option::weighted(0.4, prop_oneof![Just(0usize), Just(usize::MAX)]))
            .prop_map(|(body_len, declared, threshold)| Finish::Respond { status: 200, body_len, declared, threshold }),
        3 => (proptest::sample::select(vec![0usize, 10, 1000, 1024, 1025, 5000]), proptest::collection::vec(0u16..1024, 0..4), any::<u8>()).prop_map(|(body_len, cuts, flush_mask)| Finish::Writer { body_len, cuts, flush_mask, zero_writes: flush_mask & 0x80 != 0, how: (flush_mask >> 4) & 3 }),
        2 => Just(Finish::Drop),
        1 => Just(Finish::WriterUnused),
    ]
    .boxed()
}

pub fn c01_strategy() -> BoxedStrategy<SchedConvCase> {
    (2usize..=5)
        .prop_flat_map(|n| {
            (
                proptest::collection::vec((c01_finish(), prop_oneof![4 => Just(0usize), 1 => Just(10usize), 1 => Just(1024usize)]), n),
                prop_oneof![3 => Just(u32::MAX), 2 => any::<u32>(), 1 => Just(0u32)],
                proptest::option::weighted(0.6, Just((0..n).collect::<Vec<usize>>()).prop_shuffle()),
                proptest::collection::vec(0usize..600, 0..3),
                proptest::bool::weighted(0.2),
                tape_strategy(200),
                // handlers that take their time (virtual ms) before they answer: a response is
                // waited for however long its handler takes
                prop_oneof![2 => Just(vec![]), 1 => proptest::collection::vec(proptest::sample::select(vec![0u16, 0, 1, 500, 11_000, 31_000, 61_000]), 1..4)],
            )
        })
        .prop_map(|(items, mask, order, cuts, big_first, tape, linger)| {
            let n = items.len();
            let mut conv = Conversation::default();
            let mut progs = vec![];
            for (i, (finish, blen)) in items.into_iter().enumerate() {
                let (framing, read) = if i == 0 && big_first {
                    // one streamed body whose handler reads it first
                    (Framing::Length { n: 1500 }, ReadPlan::ToEof { buf: 700, extra: 0 })
                } else if blen > 0 {
                    (Framing::Length { n: blen }, ReadPlan::None)
                } else {
                    (Framing::None, ReadPlan::None)
                };
                conv.reqs.push(gen::build_req(i as u32, if blen > 0 || (i == 0 && big_first) { "POST".into() } else { "GET".into() }, String::new(), "HTTP/1.1", vec![Hdr::new("Host", "h")], framing, None, 1, 0, None, false));
                progs.push(Prog { read, finish });
            }
            let groups = partition_groups(n, mask);
            let own_tasks = groups.len() == n;
            // now and then the pipeline ends in a request the library answers itself (400 / 417): that
            // answer, too, leaves after all the earlier ones, whenever their handlers get round to them
            if tape.len() % 5 == 2 {
                let mut r = ReqSpec::simple(n as u32);
                r.mal = Some(match tape.len() % 3 {
                    0 => vcore::wire::Malform::ReqLineFields(1),
                    1 => vcore::wire::Malform::HeaderNoColon { at: 0, text: "NoColonHere".into() },
                    _ => vcore::wire::Malform::Expect("200-ok".into()),
                });
                conv.reqs.push(r);
            }
            let script = vec![Step::Send { from: 0, to: 0 }, Step::HalfClose];
            SchedConvCase { case: ConvCase { conv, progs, script, transport: Transport::Mem }, groups, collect_first: false, enter_order: if own_tasks { order } else { None }, cuts, hold_after_read: None, feed: None, intr: if tape.len() % 4 == 3 { 2 + (tape.len() % 3) as u8 } else { 0 }, hold_writer: None, linger, tape }
        })
        .boxed()
}

pub fn c01_oracle(sc: &SchedConvCase, so: &SchedObs) -> vcore::runner::Verdict {
    use vcore::runner::{Good, Verdict};
    if let Some(v) = exec_trouble("C01", "pipeline", so) {
        return v;
    }
    let exp = expect(&sc.case);
    if let Err(v) = prefix("C01", comp_delivery_sequence(&sc.case, &exp, &so.obs)) {
        return v;
    }
    let view = client_view(&so.obs.client, &exp);
    if let Err(v) = prefix("C01", comp_client_stream(&exp, &so.obs, &view, exp.msgs.len(), false)) {
        return v;
    }
    if !so.obs.client_eof {
        return vcore::runner::fail("C01/no-end-of-stream", "all requests answered and the client half-closed, but the server never closed its sending side");
    }
    let inv = inversions(&so.enter_seq);
    let mut g = if inv >= 1 { Good { nontrivial: Some(so.exec.stats.trace_hash), classes: vec![], extra_evals: 0 } } else { Good::trivial() };
    g = g
        .class(format!("n={}", sc.case.conv.reqs.len()))
        .class(format!("inversions={}", inv.min(6)))
        .class(format!("handler-tasks={}", sc.groups.len()))
        .class_if(so.exec.stats.preemptions > 0, "preempted")
        .class_if(so.exec.stats.nonzero_used > 0, "tape-nonzero-used")
        .class_if(sc.case.progs.iter().any(|p| matches!(p.finish, Finish::Respond { body_len, .. } if body_len > 1024)), "response>1024")
        .class_if(sc.case.progs.iter().any(|p| matches!(p.finish, Finish::Writer { .. })), "raw-writer")
        .class_if(sc.case.progs.iter().any(|p| matches!(p.finish, Finish::Drop)), "drop")
        .class_if(sc.case.progs.iter().any(|p| matches!(p.finish, Finish::WriterUnused)), "writer-unused")
        .class_if(view.msgs.iter().any(|m| m.chunks > 0), "chunked-response")
        .class_if(sc.linger.iter().any(|l| *l >= 10_000), "handler-takes-10s-or-more");
    Verdict::Pass(g)
}

// ------------------------------------------------------------------------------------------
// C18: interim responses among concurrent handlers

/// 2-4 requests on one connection, some with `Expect: 100-continue`, each handled by its own task;
/// handlers read (or do not read) the body, let some virtual time pass, then answer.  The client
/// is an eager one (everything is sent up front), which a server has to cope with.
pub fn c18_conn_strategy() -> BoxedStrategy<SchedConvCase> {
    (2usize..=4)
        .prop_flat_map(|n| {
            (
                proptest::collection::vec(
                    (
                        proptest::bool::weighted(0.6),
                        proptest::sample::select(vec![0usize, 1, 5, 700, 1024, 1025, 3000]),
                        0u8..6,
                        proptest::sample::select(vec![0usize, 3, 1000, 1025, 5000]),
                        proptest::bool::weighted(0.3),
                        any::<u32>(),
                    ),
                    n,
                ),
                proptest::collection::vec(prop_oneof![2 => Just(0u16), 2 => 1u16..5], 1..5),
                proptest::collection::vec(0usize..900, 0..3),
                proptest::option::weighted(0.3, proptest::collection::vec(prop_oneof![Just(0u16), 1u16..4], 1..4)),
                tape_strategy(200),
            )
        })
        .prop_map(|(items, linger, cuts, feed, tape)| {
            let n = items.len();
            let mut conv = Conversation::default();
            let mut progs = vec![];
            for (i, (expect, blen, read_kind, resp_len, chunked_resp, mask)) in items.into_iter().enumerate() {
                let framing = if !expect && blen == 0 { Framing::None } else { Framing::Length { n: blen } };
                let method = if matches!(framing, Framing::None) { "GET" } else { "POST" };
                // an unread streamed body of an unanswered request holds the parser: a handler that
                // does not read answers without waiting for anybody (lingering is fine)
                let read = match read_kind {
                    0 | 1 | 2 => ReadPlan::ToEof { buf: 600 + 100 * read_kind as usize, extra: read_kind },
                    3 => ReadPlan::Touch { calls: 2 },
                    _ => ReadPlan::None,
                };
                conv.reqs.push(gen::build_req(i as u32, method.into(), String::new(), "HTTP/1.1", vec![Hdr::new("Host", "h")], framing, None, 1, mask & 0xff, None, expect));
                progs.push(Prog { read, finish: Finish::Respond { status: 200, body_len: resp_len, declared: !chunked_resp, threshold: None } });
            }
            let script = vec![Step::Send { from: 0, to: 0 }, Step::HalfClose];
            let groups = (0..n).map(|i| vec![i]).collect();
            SchedConvCase { case: ConvCase { conv, progs, script, transport: Transport::Mem }, groups, collect_first: false, enter_order: None, cuts, hold_after_read: None, feed, intr: 0, hold_writer: None, linger, tape }
        })
        .boxed()
}

pub fn c18_conn_oracle(sc: &SchedConvCase, so: &SchedObs) -> vcore::runner::Verdict {
    use vcore::runner::{Good, Verdict};
    if let Some(v) = exec_trouble("C18", "concurrent-handlers", so) {
        return v;
    }
    let exp = expect(&sc.case);
    if let Err(v) = prefix("C18/concurrent-handlers", comp_delivery_sequence(&sc.case, &exp, &so.obs)) {
        return v;
    }
    let view = client_view(&so.obs.client, &exp);
    if let Err(v) = prefix("C18/concurrent-handlers", comp_client_stream(&exp, &so.obs, &view, exp.msgs.len(), true)) {
        return v;
    }
    for m in &view.msgs {
        if m.status < 200 && m.status != 100 {
            return vcore::runner::fail("C18/concurrent-handlers/interim-not-100", format!("interim status {}", m.status));
        }
    }
    if let Err(v) = prefix("C18/concurrent-handlers", comp_bodies(&sc.case, &so.obs)) {
        return v;
    }
    if !so.obs.client_eof {
        return vcore::runner::fail("C18/concurrent-handlers/no-end-of-stream", "all requests answered and the client half-closed, but the server never closed its sending side");
    }
    let n_expect = exp.msgs.iter().filter(|m| m.interim_before).count();
    // non-trivial: an interim response is due for a request that is not the first one
    let later = exp.msgs.iter().any(|m| m.interim_before && m.req_idx > 0);
    let mut g = if later { Good { nontrivial: Some(so.exec.stats.trace_hash), classes: vec![], extra_evals: 0 } } else { Good::trivial() };
    g = g
        .class(format!("n={}", sc.case.conv.reqs.len()))
        .class(format!("interims-due={}", n_expect))
        .class_if(so.exec.stats.preemptions > 0, "preempted")
        .class_if(sc.feed.is_some(), "paced-client")
        .class_if(sc.linger.iter().any(|l| *l > 0), "lingering-handler");
    Verdict::Pass(g)
}

/// kept for parts that want a plain pipeline of `n` body-less requests
pub fn simple_conv(n: usize) -> Conversation {
    let mut conv = Conversation::default();
    for i in 0..n {
        conv.reqs.push(ReqSpec::simple(i as u32));
    }
    conv
}

// ------------------------------------------------------------------------------------------
// C11: read-ahead

fn is_streamed(f: &Framing) -> bool {
    matches!(f, Framing::Length { n } if *n > 1024) || matches!(f, Framing::Chunked { .. })
}

pub fn c11_strategy() -> BoxedStrategy<SchedConvCase> {
    // (an explicit `Content-Length: 0` is a body of no bytes: read ahead like a request without one)
    let small_body = prop_oneof![3 => Just(Framing::None), 2 => Just(Framing::Length { n: 1024 }), 2 => (1usize..=1024).prop_map(|n| Framing::Length { n }), 1 => Just(Framing::Length { n: 1 }), 2 => Just(Framing::Length { n: 0 })];
    let streamed = prop_oneof![
        2 => prop_oneof![Just(1025usize), Just(2000usize), Just(9000usize)].prop_map(|n| Framing::Length { n }),
        2 => prop_oneof![Just(1usize), Just(700usize), Just(3000usize)].prop_flat_map(gen::chunks_strategy).prop_map(|chunks| Framing::Chunked { chunks, last_zeros: 0, last_ext: None }),
    ];
    (
        proptest::collection::vec(small_body, 2..=8),
        proptest::option::weighted(0.5, (any::<proptest::sample::Index>(), streamed, 0u8..3)),
        proptest::collection::vec(0usize..3000, 0..3),
        tape_strategy(200),
        any::<u8>(),
    )
        .prop_map(|(smalls, streamed, cuts, tape, rk)| {
            let mut framings: Vec<Framing> = smalls;
            let n = framings.len();
            let mut mode = 0u8;
            let mut spos = None;
            if let Some((at, f, m)) = streamed {
                let p = at.index(n);
                framings[p] = f;
                spos = Some(p);
                mode = m;
            }
            let mut conv = Conversation::default();
            let mut progs = vec![];
            for (i, f) in framings.iter().cloned().enumerate() {
                let has_body = !matches!(f, Framing::None);
                // every method is read ahead alike (CONNECT, HEAD, OPTIONS, extension tokens …)
                let method = if has_body { ["POST", "PUT", "PATCH", "DELETE"][(rk as usize + i) % 4] } else { ["GET", "HEAD", "CONNECT", "OPTIONS", "TRACE", "DELETE", "PURGE", "get"][(rk as usize / 7 + i * 3) % 8] };
                // now and then the pipeline ends in a protocol-upgrade request (a websocket handshake
                // behind ordinary requests): it is read ahead like any other
                if i + 1 == n && !has_body && rk & 0x10 != 0 {
                    conv.reqs.push(gen::build_req(i as u32, "GET".into(), String::new(), "HTTP/1.1", vec![Hdr::new("Host", "h")], Framing::Upgrade { rest: 0 }, None, 1, 0, Some(["Upgrade", "keep-alive, upgrade"][(rk as usize >> 5) % 2].to_string()), false));
                    progs.push(Prog { read: ReadPlan::None, finish: Finish::Respond { status: 200, body_len: 5, declared: true, threshold: None } });
                    continue;
                }
                // (a Connection header spread over two lines, the later one naming upgrade: the first line
                // counts, the request is an ordinary one and its successors are read ahead)
                let hs = if !has_body && (rk as usize + i) % 5 == 1 { vec![Hdr::new("Host", "h"), Hdr::new("Connection", "keep-alive"), Hdr::new("Connection", "Upgrade")] } else { vec![Hdr::new("Host", "h")] };
                conv.reqs.push(gen::build_req(i as u32, method.into(), String::new(), "HTTP/1.1", hs, f.clone(), None, 1, 0, None, false));
                let read = if is_streamed(&f) {
                    // every entry point of std::io::Read must release the successor at end-of-body
                    match rk % 7 {
                        0 => ReadPlan::ToEof { buf: 900, extra: 0 },
                        k => ReadPlan::Std { how: k - 1 },
                    }
                } else if has_body && i % 2 == 0 {
                    ReadPlan::ToEof { buf: 300, extra: 0 }
                } else {
                    ReadPlan::None
                };
                progs.push(Prog { read, finish: Finish::Respond { status: 200, body_len: 5, declared: true, threshold: None } });
            }
            let script = vec![Step::Send { from: 0, to: 0 }, Step::HalfClose];
            let case = ConvCase { conv, progs, script, transport: Transport::Mem };
            // what must be obtainable while nothing has been answered: everything up to and
            // including the first request with a streamed body
            let avail = spos.map(|p| p + 1).unwrap_or(n);
            match (spos, mode) {
                (Some(p), 1) if p + 1 < n => {
                    // read the streamed body to its end, keep the request, take the successor
                    let mut groups: Vec<Vec<usize>> = vec![(0..=p).collect()];
                    groups.push((p + 1..n).collect());
                    SchedConvCase { case, groups, collect_first: false, enter_order: None, cuts, hold_after_read: Some(p), feed: None, intr: 0, hold_writer: None, linger: vec![], tape }
                }
                (Some(p), 2) if p + 1 < n => {
                    // answer the streamed one (its handler reads the body), successors follow: plain pipeline on two tasks;
                    // now and then it is answered or dropped with its body untouched or partly read
                    let mut case = case;
                    if rk & 0x40 != 0 {
                        case.progs[p].read = if rk & 0x20 != 0 { ReadPlan::None } else { ReadPlan::Sizes(vec![1]) };
                        if matches!(case.conv.reqs[p].framing, Framing::Chunked { .. }) {
                            case.progs[p].read = ReadPlan::None;
                        }
                        if rk & 0x80 != 0 {
                            case.progs[p].finish = Finish::Drop;
                        }
                    }
                    // ... or answered in full through the raw writer, which the handler then keeps until
                    // the successor has been delivered
                    let mut hold_writer = None;
                    if rk & 0x40 == 0 && rk & 0x08 != 0 {
                        case.progs[p].read = ReadPlan::None;
                        case.progs[p].finish = Finish::Writer { body_len: 40, cuts: vec![], flush_mask: 0, zero_writes: false, how: rk & 3 };
                        hold_writer = Some(p);
                    }
                    let groups: Vec<Vec<usize>> = vec![(0..=p).collect(), (p + 1..n).collect()];
                    SchedConvCase { case, groups, collect_first: false, enter_order: None, cuts, hold_after_read: None, feed: None, intr: 0, hold_writer, linger: vec![], tape }
                }
                _ => {
                    // collect `avail` requests before answering any
                    let mut groups: Vec<Vec<usize>> = vec![(0..avail).collect()];
                    if avail < n {
                        groups.push((avail..n).collect());
                    }
                    SchedConvCase { case, groups, collect_first: true, enter_order: None, cuts, hold_after_read: None, feed: None, intr: 0, hold_writer: None, linger: vec![], tape }
                }
            }
        })
        .boxed()
}

pub fn c11_oracle(sc: &SchedConvCase, so: &SchedObs) -> vcore::runner::Verdict {
    use vcore::runner::{fail, Good, Verdict};
    let class = if sc.hold_after_read.is_some() { "hold-after-body-read" } else if sc.collect_first { "collect-before-answering" } else { "answer-streamed-then-successors" };
    if let Some(v) = exec_trouble("C11", class, so) {
        return v;
    }
    let k = sc.groups[0].len();
    if sc.collect_first {
        match (so.delivered_when_collected, so.out_len_when_collected) {
            (Some(h), Some(o)) => {
                if h != k {
                    return fail("C11/collect-before-answering/not-all-available", format!("only {} of {} pipelined requests became available while none was answered", h, k));
                }
                if o != 0 {
                    return fail("C11/collect-before-answering/harness", format!("{} response bytes already written", o));
                }
            }
            _ => return fail("C11/collect-before-answering/harness", "collector did not report".to_string()),
        }
    }
    if let Some(p) = sc.hold_after_read {
        if so.delivered_when_collected != Some(1) {
            return fail("C11/hold-after-body-read/successor-not-delivered", format!("request {} had its body read to the end, yet its successor did not arrive while it was unanswered", p));
        }
    }
    // and the whole pipeline is served normally afterwards
    let exp = expect(&sc.case);
    if let Err(v) = prefix("C11", comp_delivery_sequence(&sc.case, &exp, &so.obs)) {
        return v;
    }
    if let Err(v) = prefix("C11", comp_bodies(&sc.case, &so.obs)) {
        return v;
    }
    let view = client_view(&so.obs.client, &exp);
    if let Err(v) = prefix("C11", comp_client_stream(&exp, &so.obs, &view, exp.msgs.len(), false)) {
        return v;
    }
    let held = if sc.collect_first { k } else { 2 };
    let edge = sc.case.conv.reqs.iter().any(|r| matches!(r.framing, Framing::Length { n } if n == 1024 || n == 1025));
    let mut g = if held >= 2 { Good { nontrivial: Some(so.exec.stats.trace_hash), classes: vec![], extra_evals: 0 } } else { Good::trivial() };
    g = g.class(class).class(format!("held={}", held.min(8))).class_if(edge, "1024/1025-edge").class_if(so.exec.stats.preemptions > 0, "preempted").class_if(sc.case.conv.reqs.iter().any(|r| matches!(r.framing, Framing::Chunked { .. })), "chunked");
    Verdict::Pass(g)
}

// ------------------------------------------------------------------------------------------
// the sequential in-memory engine under the controlled runtime: a connection that blocks on
// itself (e.g. waits for a writer turn that only it could release) is an exact deadlock report

pub fn run_mem_sched(case: &ConvCase) -> (Observation, ExecEnd) {
    let checks_done = Arc::new(AtomicBool::new(false));
    let result: Arc<StdMutex<Observation>> = Arc::new(StdMutex::new(Observation::default()));
    let c = case.clone();
    let (cd, r2) = (checks_done.clone(), result.clone());
    let exec = run_exec(&[], checks_done, move || {
        let clock = rt::begin_execution();
        let obs = crate::memrun::run_mem(&c, &crate::memrun::MemOpts::default());
        *r2.lock().unwrap() = obs;
        cd.store(true, Ordering::SeqCst);
        clock.finish();
    });
    let obs = std::mem::take(&mut *result.lock().unwrap());
    (obs, exec.end)
}

pub fn mem_sched_verdict(prop: &str, case: &ConvCase, oracle: &dyn Fn(&ConvCase, &Expected, &Observation) -> vcore::runner::Verdict) -> vcore::runner::Verdict {
    let (obs, end) = run_mem_sched(case);
    let class = case.conv.reqs.iter().find_map(|r| r.mal.as_ref().map(vcore::oracles::mal_class)).unwrap_or_else(|| "valid".to_string());
    match end {
        ExecEnd::Completed | ExecEnd::Deadlock { after_checks: true, .. } => {}
        ExecEnd::Deadlock { after_checks: false, blocked } => {
            return vcore::runner::fail(format!("{}/{}/stall", prop, class), format!("the connection blocked on itself (no runnable task): {}", blocked.chars().take(300).collect::<String>()));
        }
        ExecEnd::Panic(m) => return vcore::runner::fail(format!("{}/{}/panic", prop, class), m),
        ExecEnd::StepBound => return vcore::runner::Verdict::Inconclusive("step bound".into()),
    }
    let exp = expect(case);
    oracle(case, &exp, &obs)
}

// ------------------------------------------------------------------------------------------
// C12: the server closes its sending side once everything received has been answered — also
// when the ending request's streamed body has not fully arrived and nobody reads it.  Needs the
// connection task and the handler task to be different tasks (as in the real server).

#[derive(Clone, Debug, Serialize, Deserialize)]
pub struct WithheldCase {
    pub case: ConvCase,
    pub tape: Vec<u8>,
}

pub fn c12_withheld_strategy() -> BoxedStrategy<WithheldCase> {
    (gen::c12_withheld_strategy(Just(Transport::Mem).boxed()), tape_strategy(120)).prop_map(|(case, tape)| WithheldCase { case, tape }).boxed()
}

pub fn run_c12_withheld(wc: &WithheldCase) -> vcore::runner::Verdict {
    use vcore::runner::{fail, Good, Verdict};
    let checks_done = Arc::new(AtomicBool::new(false));
    let phase = Arc::new(AtomicUsize::new(0));
    let viol: Arc<StdMutex<Option<(String, String)>>> = Arc::new(StdMutex::new(None));
    let c = wc.case.clone();
    let (cd, ph, vi) = (checks_done.clone(), phase.clone(), viol.clone());
    let exec = run_exec(&wc.tape, checks_done, move || {
        let clock = rt::begin_execution();
        let rendered = render(&c.conv);
        let bytes = rendered.with_nonce(b"00000000");
        let cut = match c.script.first() {
            Some(Step::Send { to, .. }) => (*to).min(bytes.len()),
            _ => bytes.len(),
        };
        let exp = expect(&c);
        let (client, conn) = rt::mem::pair();
        client.send(&bytes[..cut]);
        let sink: Arc<StdMutex<Vec<Delivered>>> = Arc::new(StdMutex::new(vec![]));
        let queue: Arc<(rt::sync::Mutex<(std::collections::VecDeque<Request>, bool)>, rt::sync::Condvar)> = Arc::new((rt::sync::Mutex::new((Default::default(), false)), rt::sync::Condvar::new()));
        let q2 = queue.clone();
        let conn_task = shuttle::thread::spawn(move || {
            let it = tiny_http::verif::client_connection(conn);
            for rq in it {
                let mut g = q2.0.lock().unwrap();
                g.0.push_back(rq);
                q2.1.notify_all();
            }
            let mut g = q2.0.lock().unwrap();
            g.1 = true;
            q2.1.notify_all();
        });
        let q3 = queue.clone();
        let sink3 = sink.clone();
        let case3 = c.clone();
        let handler = shuttle::thread::spawn(move || loop {
            let rq = {
                let mut g = q3.0.lock().unwrap();
                loop {
                    if let Some(rq) = g.0.pop_front() {
                        break Some(rq);
                    }
                    if g.1 {
                        break None;
                    }
                    g = q3.1.wait(g).unwrap();
                }
            };
            let Some(rq) = rq else { break };
            let idx = interp::parse_id(rq.url(), "00000000").and_then(|id| case3.conv.reqs.iter().position(|r| r.id == id)).unwrap_or(0);
            let prog = case3.prog(idx).clone();
            interp::handle(rq, &prog, "00000000", 0, &sink3);
        });
        ph.store(1, Ordering::SeqCst);
        // all responses, then the close — while the rest of the body is still withheld
        let want = exp.msgs.len();
        let heads: Vec<bool> = exp.msgs.iter().map(|m| m.head).collect();
        let count = move |o: &[u8]| -> usize {
            let mut pos = 0;
            let mut n = 0;
            while pos < o.len() {
                match vcore::respparse::parse_one(&o[pos..], heads.get(n).copied().unwrap_or(false)) {
                    Ok(m) => {
                        pos += m.consumed;
                        if m.status >= 200 {
                            n += 1;
                        }
                    }
                    Err(_) => break,
                }
            }
            n
        };
        let c1 = count.clone();
        client.wait_output(move |o, _| c1(o) >= want);
        ph.store(2, Ordering::SeqCst);
        client.wait_output(|_, closed| closed);
        ph.store(3, Ordering::SeqCst);
        let got = client.output();
        if count(&got) != want {
            *vi.lock().unwrap() = Some(("C12/withheld-body/responses".into(), format!("{} final responses, expected {}", count(&got), want)));
        }
        // now let the server finish: the rest of the body arrives, the client closes
        client.send(&bytes[cut..]);
        client.close_write();
        let _ = handler.join();
        let _ = conn_task.join();
        cd.store(true, Ordering::SeqCst);
        clock.finish();
    });
    match exec.end {
        ExecEnd::Completed | ExecEnd::Deadlock { after_checks: true, .. } => {}
        ExecEnd::Deadlock { after_checks: false, blocked } => {
            let p = phase.load(Ordering::SeqCst);
            let sig = if p == 2 { "C12/withheld-body/no-end-of-stream" } else if p <= 1 { "C12/withheld-body/response-missing" } else { "C12/withheld-body/stall" };
            return fail(sig, format!("no runnable task in phase {} (1 = waiting for the responses, 2 = responses there, waiting for the server to close its sending side while the rest of the body is withheld): {}", p, blocked.chars().take(300).collect::<String>()));
        }
        ExecEnd::Panic(m) => return fail("C12/withheld-body/panic", m),
        ExecEnd::StepBound => return Verdict::Inconclusive("step bound".into()),
    }
    if let Some((k, d)) = viol.lock().unwrap().clone() {
        return fail(k, d);
    }
    Verdict::Pass(Good { nontrivial: Some(exec.stats.trace_hash), classes: vec![format!("framing:{}", framing_name(&wc.case.conv.reqs.last().unwrap().framing))], extra_evals: 0 })
}

// ------------------------------------------------------------------------------------------
// C13 under the controlled scheduler: the same bytes, once all there (with the half-close) before
// the server starts, once sent by a client task with pauses between the segments and before the
// half-close.  Deliveries and the response stream must be the same.

#[derive(Clone, Debug, Serialize, Deserialize)]
pub struct PauseCase {
    pub base: SchedConvCase,
    /// pauses (virtual ms; 0 = scheduling point only) of the second run
    pub delays: Vec<u16>,
    /// schedule tape of the second run
    pub tape2: Vec<u8>,
}

pub fn c13_pause_strategy() -> BoxedStrategy<PauseCase> {
    (c01_strategy(), proptest::collection::vec(prop_oneof![2 => Just(0u16), 2 => Just(1u16), 1 => Just(50u16), 1 => Just(400u16)], 1..5), tape_strategy(160))
        .prop_map(|(base, delays, tape2)| PauseCase { base, delays, tape2 })
        .boxed()
}

fn blank_dates(out: &[u8]) -> Vec<u8> {
    let mut v = Vec::with_capacity(out.len());
    let mut i = 0;
    while i < out.len() {
        if out[i..].starts_with(b"\r\nDate: ") {
            v.extend_from_slice(b"\r\nDate: X");
            i += 8;
            while i < out.len() && out[i] != b'\r' {
                i += 1;
            }
        } else {
            v.push(out[i]);
            i += 1;
        }
    }
    v
}

pub fn c13_pause_test(pc: &PauseCase) -> vcore::runner::Verdict {
    use vcore::runner::{fail, Good, Verdict};
    let a = run_sched_conv(&pc.base);
    if let Some(v) = exec_trouble("C13", "pauses/all-at-once", &a) {
        return v;
    }
    let mut second = pc.base.clone();
    second.feed = Some(pc.delays.clone());
    second.tape = pc.tape2.clone();
    let b = run_sched_conv(&second);
    if let Some(v) = exec_trouble("C13", "pauses/with-pauses", &b) {
        return v;
    }
    let proj = |o: &Observation| -> (Vec<(Option<u32>, String, String, Vec<(String, String)>, Vec<u8>)>, Vec<u8>, bool) {
        (o.delivered.iter().map(|d| (d.id, d.method.clone(), d.url.clone(), d.headers.clone(), d.body.clone())).collect(), blank_dates(&o.client), o.client_eof)
    };
    let (pa, pb) = (proj(&a.obs), proj(&b.obs));
    if pa.0 != pb.0 {
        return fail("C13/pauses/deliveries-differ", format!("all at once: {} requests delivered; with pauses {:?}: {}", pa.0.len(), pc.delays, pb.0.len()));
    }
    if pa.1 != pb.1 {
        let at = pa.1.iter().zip(pb.1.iter()).position(|(x, y)| x != y).unwrap_or(pa.1.len().min(pb.1.len()));
        return fail("C13/pauses/responses-differ", format!("the response streams differ at byte {} ({} bytes when everything incl. the half-close was there at the start, {} bytes with pauses {:?})", at, pa.1.len(), pb.1.len(), pc.delays));
    }
    if pa.2 != pb.2 {
        return fail("C13/pauses/end-of-stream-differs", format!("{} vs {}", pa.2, pb.2));
    }
    let g = Good { nontrivial: Some(a.exec.stats.trace_hash ^ b.exec.stats.trace_hash.rotate_left(17)), classes: vec![], extra_evals: 1 };
    Verdict::Pass(g.class(format!("n={}", pc.base.case.conv.reqs.len())).class_if(pc.delays.iter().any(|d| *d >= 50), "long-pause").class_if(b.exec.stats.clock_picks > 0, "virtual-time-passed"))
}
