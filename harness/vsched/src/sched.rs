//! The controllable scheduler: every scheduling decision with more than one truly runnable task
//! consumes one byte of the generated tape (DESIGN.md 2.2 / Appendix A).

use shuttle::scheduler::{Schedule, Scheduler, Task, TaskId};
use std::sync::atomic::{AtomicBool, Ordering};
use std::sync::{Arc, Mutex};

#[derive(Clone, Debug, Default)]
pub struct SchedStats {
    pub decisions: usize,
    pub choice_points: usize,
    pub preemptions: usize,
    pub nonzero_used: usize,
    pub trace_hash: u64,
    pub randoms: usize,
    pub clock_picks: usize,
}

pub struct TapeScheduler {
    tape: Vec<u8>,
    pos: usize,
    started: bool,
    stats: Arc<Mutex<SchedStats>>,
    clock_id: Option<TaskId>,
}

impl TapeScheduler {
    pub fn new(tape: &[u8], stats: Arc<Mutex<SchedStats>>) -> TapeScheduler {
        TapeScheduler { tape: tape.to_vec(), pos: 0, started: false, stats, clock_id: None }
    }
    fn next_byte(&mut self) -> u8 {
        let b = self.tape.get(self.pos).copied().unwrap_or(0);
        self.pos += 1;
        b
    }
}

fn mix(h: u64, v: u64) -> u64 {
    (h ^ v).wrapping_mul(0x100000001b3).rotate_left(5)
}

impl Scheduler for TapeScheduler {
    fn new_execution(&mut self) -> Option<Schedule> {
        if self.started {
            None
        } else {
            self.started = true;
            Some(Schedule::new(0))
        }
    }

    fn next_task(&mut self, runnable_tasks: &[&Task], current_task: Option<TaskId>, is_yielding: bool) -> Option<TaskId> {
        // parked tasks are offered as spurious-wake-up candidates: never pick those
        let cands: Vec<&&Task> = runnable_tasks.iter().filter(|t| t.runnable()).collect();
        if cands.is_empty() {
            return Some(runnable_tasks[0].id());
        }
        if self.clock_id.is_none() {
            for t in &cands {
                if t.name().as_deref() == Some("verif-clock") {
                    self.clock_id = Some(t.id());
                }
            }
        }
        let mut stats = self.stats.lock().unwrap();
        stats.decisions += 1;
        if cands.len() == 1 {
            return Some(cands[0].id());
        }
        stats.choice_points += 1;
        drop(stats);
        let b = self.next_byte();
        let current_ok = current_task.map(|c| cands.iter().any(|t| t.id() == c)).unwrap_or(false);
        let chosen = if b == 0 {
            // default: keep running (no preemption); when the current task blocks or yields, the
            // lowest-id task that is not the clock; the clock only when nothing else can run
            if current_ok && !is_yielding {
                current_task.unwrap()
            } else {
                let non_clock: Vec<&&&Task> = cands.iter().filter(|t| Some(t.id()) != self.clock_id && (Some(t.id()) != current_task || !is_yielding)).collect();
                match non_clock.first() {
                    Some(t) => t.id(),
                    None => {
                        // only the clock and/or the yielding task remain
                        let others: Vec<&&&Task> = cands.iter().filter(|t| Some(t.id()) != current_task).collect();
                        others.first().map(|t| t.id()).unwrap_or(cands[0].id())
                    }
                }
            }
        } else {
            cands[(b as usize * cands.len()) >> 8].id()
        };
        let mut stats = self.stats.lock().unwrap();
        if b != 0 {
            stats.nonzero_used += 1;
        }
        if current_ok && Some(chosen) != current_task && !is_yielding {
            stats.preemptions += 1;
        }
        if Some(chosen) == self.clock_id {
            stats.clock_picks += 1;
        }
        let idx = cands.iter().position(|t| t.id() == chosen).unwrap_or(0);
        stats.trace_hash = mix(stats.trace_hash, ((cands.len() as u64) << 8) | idx as u64);
        Some(chosen)
    }

    fn next_u64(&mut self) -> u64 {
        let b = self.next_byte();
        let mut stats = self.stats.lock().unwrap();
        stats.randoms += 1;
        stats.trace_hash = mix(stats.trace_hash, 0x10000 | b as u64);
        b as u64
    }
}

#[derive(Clone, Debug)]
pub enum ExecEnd {
    Completed,
    /// no runnable task while some task is unfinished; `after_checks`: main had already evaluated
    /// every oracle (only teardown was left)
    Deadlock { after_checks: bool, blocked: String },
    /// a task panicked (oracle assertion inside the execution, or the library)
    Panic(String),
    StepBound,
}

#[derive(Clone, Debug)]
pub struct ExecResult {
    pub end: ExecEnd,
    pub stats: SchedStats,
}

/// Runs `f` once under the tape.  `checks_done` must be set by `f` when every oracle has been
/// evaluated and only teardown remains.
pub fn run_exec<F>(tape: &[u8], checks_done: Arc<AtomicBool>, f: F) -> ExecResult
where
    F: Fn() + Send + Sync + 'static,
{
    let stats = Arc::new(Mutex::new(SchedStats::default()));
    let sched = TapeScheduler::new(tape, stats.clone());
    let mut config = shuttle::Config::new();
    config.stack_size = 512 * 1024;
    config.failure_persistence = shuttle::FailurePersistence::None;
    config.max_steps = shuttle::MaxSteps::FailAfter(400_000);
    config.silence_warnings = true;
    let runner = shuttle::Runner::new(sched, config);
    let r = vcore::panics::catch(move || {
        runner.run(f);
    });
    let end = match r {
        Ok(()) => ExecEnd::Completed,
        Err(p) => {
            if p.message.starts_with("deadlock!") {
                ExecEnd::Deadlock { after_checks: checks_done.load(Ordering::SeqCst), blocked: p.message.chars().take(1500).collect() }
            } else if p.message.contains("exceeded max_steps") {
                ExecEnd::StepBound
            } else {
                ExecEnd::Panic(format!("{} at {}", p.message, p.location))
            }
        }
    };
    let stats = stats.lock().unwrap().clone();
    LAST.with(|l| *l.borrow_mut() = stats.clone());
    ExecResult { end, stats }
}

thread_local! {
    static LAST: std::cell::RefCell<SchedStats> = std::cell::RefCell::new(SchedStats::default());
}

/// statistics of the execution this thread ran last
pub fn last_stats() -> SchedStats {
    LAST.with(|l| l.borrow().clone())
}

// ------------------------------------------------------------------------------------------
// systematic sweeps: every schedule that deviates from the default one (no preemption, lowest
// task first, first waiter woken) at no more than `depth` decisions

/// values that reach every alternative of a decision among up to six candidates
pub const SWEEP_VALUES: [u8; 13] = [1, 22, 43, 64, 85, 106, 127, 148, 169, 190, 211, 232, 253];

pub struct SweepOutcome {
    pub verdict: vcore::runner::Verdict,
    pub executions: u64,
    pub distinct_traces: u64,
    /// false when the execution budget ended the sweep early
    pub complete: bool,
    pub decisions_in_default_run: usize,
}

/// `run(tape)` executes the scenario under the tape and judges it.  Deviations are tried at every
/// decision of the default run (and, for depth 2, at every later decision of each deviating
/// run); alternatives that lead to an execution already seen are not expanded again.
pub fn sweep(depth: usize, max_execs: u64, run: &dyn Fn(&[u8]) -> vcore::runner::Verdict) -> SweepOutcome {
    use vcore::runner::Verdict;
    let mut seen = std::collections::HashSet::new();
    let mut execs = 0u64;
    let base = run(&[]);
    execs += 1;
    let st0 = last_stats();
    let p0 = st0.choice_points + st0.randoms;
    seen.insert(st0.trace_hash);
    let mut out = SweepOutcome { verdict: Verdict::Pass(Default::default()), executions: 0, distinct_traces: 0, complete: true, decisions_in_default_run: p0 };
    let tag = |v: Verdict, tape: &[u8]| -> Verdict {
        match v {
            Verdict::Fail(mut b) => {
                b.detail = format!("{} [schedule tape {:?}]", b.detail, tape);
                Verdict::Fail(b)
            }
            o => o,
        }
    };
    if !matches!(base, Verdict::Pass(_)) {
        out.verdict = tag(base, &[]);
        out.executions = execs;
        out.distinct_traces = 1;
        return out;
    }
    'outer: for p in 0..p0 {
        for v in SWEEP_VALUES {
            if execs >= max_execs {
                out.complete = false;
                break 'outer;
            }
            let mut tape = vec![0u8; p + 1];
            tape[p] = v;
            let r = run(&tape);
            execs += 1;
            let st1 = last_stats();
            if !matches!(r, Verdict::Pass(_)) {
                out.verdict = tag(r, &tape);
                break 'outer;
            }
            if !seen.insert(st1.trace_hash) {
                continue;
            }
            if depth >= 2 {
                let p1 = st1.choice_points + st1.randoms;
                for q in p + 1..p1 {
                    for w in SWEEP_VALUES {
                        if execs >= max_execs {
                            out.complete = false;
                            break 'outer;
                        }
                        let mut t2 = vec![0u8; q + 1];
                        t2[p] = v;
                        t2[q] = w;
                        let r2 = run(&t2);
                        execs += 1;
                        seen.insert(last_stats().trace_hash);
                        if !matches!(r2, Verdict::Pass(_)) {
                            out.verdict = tag(r2, &t2);
                            break 'outer;
                        }
                    }
                }
            }
        }
    }
    out.executions = execs;
    out.distinct_traces = seen.len() as u64;
    out
}

/// the verdict of a sweep as the verdict of one generated case
pub fn sweep_verdict(depth: usize, max_execs: u64, run: &dyn Fn(&[u8]) -> vcore::runner::Verdict) -> vcore::runner::Verdict {
    use vcore::runner::{Good, Verdict};
    let o = sweep(depth, max_execs, run);
    match o.verdict {
        Verdict::Pass(_) => {
            let mut g = Good { nontrivial: Some(o.distinct_traces), classes: vec![], extra_evals: o.executions.saturating_sub(1) };
            g = g.class(format!("sweep-depth={}", depth)).class(if o.complete { "sweep-complete" } else { "sweep-cut-by-budget" }).class(format!("decisions<={}", ((o.decisions_in_default_run / 25) + 1) * 25));
            Verdict::Pass(g)
        }
        other => other,
    }
}

// ------------------------------------------------------------------------------------------
// tape strategies

use proptest::prelude::*;

pub fn tape_strategy(len: usize) -> BoxedStrategy<Vec<u8>> {
    let len = len.max(4);
    prop_oneof![
        1 => Just(vec![]),
        // sparse: preemption-bounded exploration
        5 => proptest::collection::vec((0..len, 1u8..=255), 1..=3).prop_map(move |pts| {
            let mut t = vec![0u8; pts.iter().map(|p| p.0).max().unwrap_or(0) + 1];
            for (p, v) in pts {
                t[p] = v;
            }
            t
        }),
        2 => proptest::collection::vec((0..len, 1u8..=255), 4..=8).prop_map(move |pts| {
            let mut t = vec![0u8; pts.iter().map(|p| p.0).max().unwrap_or(0) + 1];
            for (p, v) in pts {
                t[p] = v;
            }
            t
        }),
        // dense: random scheduler
        3 => proptest::collection::vec(any::<u8>(), 0..len),
        // mostly zero
        2 => proptest::collection::vec(prop_oneof![4 => Just(0u8), 1 => any::<u8>()], 0..len),
    ]
    .boxed()
}
