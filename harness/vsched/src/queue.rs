//! C07 / C17: the messages queue alone under the controlled scheduler (fewer tasks than the whole
//! server, hence far deeper interleavings per second).  The whole-server variants live in
//! `server.rs`.

use crate::sched::{run_exec, tape_strategy, ExecEnd};
use proptest::prelude::*;
use serde::{Deserialize, Serialize};
use std::sync::atomic::{AtomicBool, AtomicUsize, Ordering};
use std::sync::{Arc, Mutex as StdMutex};
use std::time::Duration;
use tiny_http::verif::MessagesQueue;
use tiny_http_verif_rt as rt;
use vcore::runner::{fail, Good, Verdict};

/// timeout in ms; `u64::MAX` stands for `Duration::MAX` ("no limit, but let unblock() end the call")
pub fn timeout_of(ms: u64) -> Duration {
    if ms == u64::MAX {
        Duration::MAX
    } else {
        Duration::from_millis(ms)
    }
}

#[derive(Clone, Debug, Serialize, Deserialize, PartialEq, Eq)]
pub enum RecvOp {
    Recv,
    RecvTimeout(u64),
    TryRecv,
}

#[derive(Clone, Debug, Serialize, Deserialize)]
pub struct QueueCase {
    /// per pusher: number of yields before each push (ids are pusher*100 + k)
    pub pushers: Vec<Vec<u8>>,
    /// per pusher: virtual milliseconds to sleep before each push (cycled; empty = none)
    #[serde(default)]
    pub sleeps: Vec<Vec<u16>>,
    /// per receiver: operation list (cycled until everything sent has been received)
    pub receivers: Vec<Vec<RecvOp>>,
    /// unblock() calls issued by main, each after this many yields (C17)
    pub unblocks: Vec<u8>,
    /// C17 counting mode: receivers only use recv() and leave on the first error
    pub counting: bool,
    /// a receiver that got an element does not return to the queue before everything has been
    /// received (a long-running handler); requires elements <= receivers
    #[serde(default)]
    pub hold: bool,
    pub tape: Vec<u8>,
}

struct Shared {
    st: rt::sync::Mutex<St>,
    cv: rt::sync::Condvar,
}

#[derive(Default)]
struct St {
    received: usize,
    receivers_done: usize,
    pushers_done: usize,
}

#[derive(Default, Clone)]
struct Log {
    /// (receiver, id)
    got: Vec<(usize, u32)>,
    recv_errs: usize,
    violations: Vec<(String, String)>,
    parked_waits: u64,
    timed_nones: Vec<(u64, u64, bool)>, // (T ms, elapsed ns, main had begun releasing receivers)
    unblock_while_parked: bool,
    /// logical time stamps (one global counter): a push has returned; a receive call started (and
    /// whether it came back with an element); a try_recv that came back empty-handed (start, end)
    pushes_done: Vec<u64>,
    pops: Vec<(u64, bool)>,
    try_nones: Vec<(u64, u64)>,
}

pub fn run_queue_case(prop: &'static str, case: &QueueCase) -> Verdict {
    let checks_done = Arc::new(AtomicBool::new(false));
    let log: Arc<StdMutex<Log>> = Arc::new(StdMutex::new(Log::default()));
    let phase = Arc::new(AtomicUsize::new(0));
    let c = case.clone();
    let (cd, lg, ph) = (checks_done.clone(), log.clone(), phase.clone());
    let total: usize = case.pushers.iter().map(|p| p.len()).sum();
    let res = run_exec(&case.tape, checks_done.clone(), move || {
        let clock = rt::begin_execution();
        let q: Arc<MessagesQueue<u32>> = MessagesQueue::with_capacity(8);
        let sh = Arc::new(Shared { st: rt::sync::Mutex::new(St::default()), cv: rt::sync::Condvar::new() });
        let done = Arc::new(AtomicBool::new(false));
        let unblocks_started = Arc::new(AtomicUsize::new(0));
        let seq = Arc::new(std::sync::atomic::AtomicU64::new(1));
        let total: usize = c.pushers.iter().map(|p| p.len()).sum();
        let mut handles = vec![];
        for (ri, ops) in c.receivers.iter().cloned().enumerate() {
            let (q, sh, done, lg, us) = (q.clone(), sh.clone(), done.clone(), lg.clone(), unblocks_started.clone());
            let seq = seq.clone();
            let counting = c.counting;
            let hold = c.hold;
            let total_elems = total;
            handles.push(shuttle::thread::spawn(move || {
                let mut k = 0usize;
                let mut empty_run = 0usize;
                loop {
                    if !counting && done.load(Ordering::SeqCst) {
                        break;
                    }
                    // a receiver that only polls would spin forever under a non-preemptive
                    // schedule: after a run of empty polls it falls back to a blocking receive
                    let op = if counting || empty_run >= 40 { RecvOp::Recv } else { ops[k % ops.len()].clone() };
                    k += 1;
                    let waits_before = rt::probe::condvar_waits_of_current_task();
                    let t0 = rt::time::Instant::now();
                    let seq_start = seq.fetch_add(1, Ordering::SeqCst);
                    let r = match &op {
                        RecvOp::Recv => q.pop(),
                        RecvOp::RecvTimeout(ms) => q.pop_timeout(timeout_of(*ms)),
                        RecvOp::TryRecv => q.try_pop(),
                    };
                    let seq_end = seq.fetch_add(1, Ordering::SeqCst);
                    let elapsed = t0.elapsed();
                    let waits_after = rt::probe::condvar_waits_of_current_task();
                    {
                        let mut l = lg.lock().unwrap();
                        l.pops.push((seq_start, r.is_some()));
                        if op == RecvOp::TryRecv && r.is_none() && !done.load(Ordering::SeqCst) {
                            l.try_nones.push((seq_start, seq_end));
                        }
                        l.parked_waits += waits_after - waits_before;
                        if op == RecvOp::TryRecv && waits_after != waits_before {
                            l.violations.push(("try_recv-blocked".into(), format!("try_recv waited on the queue's condition variable {} times", waits_after - waits_before)));
                        }
                        match (&op, &r) {
                            (_, Some(id)) => l.got.push((ri, *id)),
                            (RecvOp::Recv, None) => {
                                l.recv_errs += 1;
                                if l.recv_errs > us.load(Ordering::SeqCst) {
                                    let (e, u) = (l.recv_errs, us.load(Ordering::SeqCst));
                                    l.violations.push(("more-receivers-released-than-unblock-calls".into(), format!("{} recv() errors after only {} unblock() calls", e, u)));
                                }
                            }
                            (RecvOp::RecvTimeout(ms), None) => l.timed_nones.push((*ms, elapsed.as_nanos() as u64, done.load(Ordering::SeqCst))),
                            _ => {}
                        }
                    }
                    if r.is_some() {
                        empty_run = 0;
                        let mut st = sh.st.lock().unwrap();
                        st.received += 1;
                        sh.cv.notify_all();
                        if hold {
                            // busy with this request until all the others were taken by someone else
                            while st.received < total_elems {
                                st = sh.cv.wait(st).unwrap();
                            }
                        }
                    } else if counting {
                        break;
                    } else {
                        empty_run += 1;
                        if op == RecvOp::TryRecv {
                            rt::thread::yield_now();
                        }
                    }
                }
                let mut st = sh.st.lock().unwrap();
                st.receivers_done += 1;
                sh.cv.notify_all();
            }));
        }
        for (pi, yields) in c.pushers.iter().cloned().enumerate() {
            let (q, sh) = (q.clone(), sh.clone());
            let (seq, lg) = (seq.clone(), lg.clone());
            let sleeps: Vec<u16> = c.sleeps.get(pi).cloned().unwrap_or_default();
            handles.push(shuttle::thread::spawn(move || {
                for (k, y) in yields.iter().enumerate() {
                    if !sleeps.is_empty() {
                        let ms = sleeps[k % sleeps.len()];
                        if ms > 0 {
                            rt::thread::sleep(Duration::from_millis(ms as u64));
                        }
                    }
                    for _ in 0..*y {
                        rt::thread::yield_now();
                    }
                    q.push((pi * 100 + k) as u32);
                    let at = seq.fetch_add(1, Ordering::SeqCst);
                    lg.lock().unwrap().pushes_done.push(at);
                }
                let mut st = sh.st.lock().unwrap();
                st.pushers_done += 1;
                sh.cv.notify_all();
            }));
        }
        ph.store(1, Ordering::SeqCst);
        // generated unblocks (C17)
        for y in &c.unblocks {
            for _ in 0..*y {
                rt::thread::yield_now();
            }
            unblocks_started.fetch_add(1, Ordering::SeqCst);
            q.unblock();
        }
        ph.store(2, Ordering::SeqCst);
        // every pushed element must be received: a receiver blocked while one is queued = deadlock
        {
            let n_recv = c.receivers.len();
            let n_push = c.pushers.len();
            let mut st = sh.st.lock().unwrap();
            // (in counting mode receivers may all have been released before the elements came)
            while st.pushers_done < n_push || (st.received < total && !(c.counting && st.receivers_done == n_recv)) {
                st = sh.cv.wait(st).unwrap();
            }
        }
        ph.store(3, Ordering::SeqCst);
        done.store(true, Ordering::SeqCst);
        // release whoever still blocks: exactly one receiver per call
        let n_recv = c.receivers.len();
        if c.counting {
            let already = unblocks_started.load(Ordering::SeqCst);
            for _ in already..n_recv {
                unblocks_started.fetch_add(1, Ordering::SeqCst);
                q.unblock();
            }
        } else {
            loop {
                let d = sh.st.lock().unwrap().receivers_done;
                if d >= n_recv {
                    break;
                }
                unblocks_started.fetch_add(1, Ordering::SeqCst);
                q.unblock();
                // wait for one more receiver to leave (or all)
                let mut st = sh.st.lock().unwrap();
                while st.receivers_done == d {
                    st = sh.cv.wait(st).unwrap();
                }
            }
        }
        ph.store(4, Ordering::SeqCst);
        for h in handles {
            let _ = h.join();
        }
        ph.store(5, Ordering::SeqCst);
        // nothing may be left in the queue except unconsumed unblock tokens
        let mut leftovers = vec![];
        for _ in 0..(total + c.unblocks.len() + n_recv + 2) {
            if let Some(v) = q.try_pop() {
                leftovers.push(v);
            }
        }
        if !leftovers.is_empty() {
            if c.counting {
                // every receiver had been released before these arrived: they count as conserved
                let mut l = lg.lock().unwrap();
                for v in leftovers {
                    l.got.push((usize::MAX, v));
                }
            } else {
                lg.lock().unwrap().violations.push(("element-left-in-queue".into(), format!("{:?}", leftovers)));
            }
        }
        cd.store(true, Ordering::SeqCst);
        clock.finish();
    });
    let l = log.lock().unwrap().clone();
    let ph = phase.load(Ordering::SeqCst);
    match &res.end {
        ExecEnd::Completed | ExecEnd::Deadlock { after_checks: true, .. } => {}
        ExecEnd::Deadlock { after_checks: false, blocked } => {
            let sig = match ph {
                0..=2 => format!("{}/queue/lost-wake-up", prop),
                3 | 4 => format!("{}/queue/unblock-did-not-release-a-receiver", prop),
                _ => format!("{}/queue/deadlock", prop),
            };
            return fail(
                sig,
                format!("no runnable task in phase {} (2 = main waits for {} elements, {} received; 3/4 = releasing receivers): {}", ph, total, l.got.len(), blocked.chars().take(300).collect::<String>()),
            );
        }
        ExecEnd::Panic(m) => return fail(format!("{}/queue/panic", prop), m.clone()),
        ExecEnd::StepBound => return Verdict::Inconclusive("step bound exceeded".into()),
    }
    if let Some((k, d)) = l.violations.first() {
        return fail(format!("{}/queue/{}", prop, k), d.clone());
    }
    // try_recv and emptiness (histories without unblock markers): a call that came back empty-handed
    // although the queue held a request during the whole call.  Lower bound of the queue length in
    // the call's window = pushes that had returned before it started - receives that started before
    // it ended and got a request
    if case.unblocks.is_empty() && !case.counting {
        for (s0, e0) in &l.try_nones {
            let pushed = l.pushes_done.iter().filter(|p| *p < s0).count();
            let taken = l.pops.iter().filter(|(st, ok)| *ok && st < e0).count();
            if pushed > taken {
                return fail(format!("{}/queue/try_recv-empty-handed-while-requests-queued", prop), format!("a try_recv returned nothing although at least {} requests were queued during the whole call ({} pushes had returned before it started, {} receives that started before it ended got a request) and no unblock() was ever issued", pushed - taken, pushed, taken));
            }
        }
    }
    // conservation: exactly the pushed ids, each once
    let mut want: Vec<u32> = case.pushers.iter().enumerate().flat_map(|(pi, p)| (0..p.len()).map(move |k| (pi * 100 + k) as u32)).collect();
    let mut got: Vec<u32> = l.got.iter().map(|g| g.1).collect();
    want.sort();
    let mut got_sorted = got.clone();
    got_sorted.sort();
    if got_sorted != want {
        let mut dup = got_sorted.clone();
        dup.dedup();
        let kind = if dup.len() != got_sorted.len() { "duplicated" } else if got_sorted.len() < want.len() { "lost" } else { "invented" };
        return fail(format!("{}/queue/element-{}", prop, kind), format!("pushed {:?}, received {:?}", want, got_sorted));
    }
    // a single receiver sees each pusher's elements in push order
    if case.receivers.len() == 1 {
        for pi in 0..case.pushers.len() {
            let seq: Vec<u32> = got.iter().copied().filter(|id| (*id / 100) as usize == pi).collect();
            let mut sorted = seq.clone();
            sorted.sort();
            if seq != sorted {
                return fail(format!("{}/queue/reordered", prop), format!("pusher {}: received in order {:?}", pi, seq));
            }
        }
    }
    got.clear();
    // C17 counting mode: n calls released n receivers — all receivers are gone and recv errors = receivers
    if case.counting && l.recv_errs != case.receivers.len() {
        return fail(format!("{}/queue/recv-error-count", prop), format!("{} receivers, {} recv() errors", case.receivers.len(), l.recv_errs));
    }
    // timed receives with no unblock token in play.  Lower bound: an empty-handed return needs the
    // timeout (virtual time only moves when a timer fires).  Upper bound: only asserted when this
    // receiver is the only source of timers, so that nothing but its own waits advances the clock
    // (otherwise the measured span includes time the task spent descheduled before/after the call).
    if case.unblocks.is_empty() && !case.counting {
        let timed_receivers = case.receivers.iter().filter(|ops| ops.iter().any(|o| matches!(o, RecvOp::RecvTimeout(_)))).count();
        for (ms, el, releasing) in &l.timed_nones {
            if *releasing {
                continue;
            }
            let t_ns = ms.saturating_mul(1_000_000);
            if *el + 1_000_000 < t_ns {
                return fail(format!("{}/queue/recv_timeout-too-early", prop), format!("recv_timeout({} ms) returned empty-handed after only {} ns of virtual time", ms, el));
            }
            if timed_receivers == 1 && case.sleeps.is_empty() && *el > t_ns.saturating_mul(2) {
                return fail(format!("{}/queue/recv_timeout-too-late", prop), format!("recv_timeout({} ms) returned empty-handed after {} ns of virtual time", ms, el));
            }
        }
    }
    let parked = l.parked_waits > 0;
    let multi = case.pushers.len() + case.receivers.len() >= 3;
    let nontrivial = if prop == "C07" { multi && parked } else { !case.unblocks.is_empty() && parked };
    let mut g = if nontrivial { Good { nontrivial: Some(res.stats.trace_hash), classes: vec![], extra_evals: 0 } } else { Good::trivial() };
    g = g
        .class(format!("pushers={}", case.pushers.len()))
        .class(format!("receivers={}", case.receivers.len()))
        .class_if(parked, "receiver-parked")
        .class_if(case.counting, "counting-mode")
        .class_if(case.hold, "receivers-hold-their-request")
        .class_if(!l.timed_nones.is_empty(), "timed-receive-empty")
        .class_if(res.stats.preemptions > 0, "preempted")
        .class_if(res.stats.clock_picks > 0, "timeout-fired")
        .class_if(matches!(res.end, ExecEnd::Deadlock { .. }), "teardown-leftover");
    Verdict::Pass(g)
}

fn recv_op() -> BoxedStrategy<RecvOp> {
    prop_oneof![
        4 => Just(RecvOp::Recv),
        2 => proptest::sample::select(vec![0u64, 5, 50, u64::MAX]).prop_map(RecvOp::RecvTimeout),
        2 => Just(RecvOp::TryRecv),
    ]
    .boxed()
}

pub fn c07_queue_strategy() -> BoxedStrategy<QueueCase> {
    (
        proptest::collection::vec(proptest::collection::vec(0u8..3, 1..=4), 1..=3),
        proptest::collection::vec(prop_oneof![2 => Just(vec![RecvOp::Recv]), 2 => proptest::collection::vec(recv_op(), 1..4)], 1..=3),
        tape_strategy(200),
    )
        .prop_flat_map(|(pushers, receivers, tape)| {
            let total: usize = pushers.iter().map(|p| p.len()).sum();
            let all_recv = receivers.iter().all(|r| r.len() == 1 && r[0] == RecvOp::Recv);
            let can_hold = all_recv && total <= receivers.len();
            (Just((pushers, receivers, tape)), if can_hold { proptest::bool::weighted(0.7).boxed() } else { Just(false).boxed() })
        })
        .prop_map(|((pushers, receivers, tape), hold)| QueueCase { pushers, sleeps: vec![], receivers, unblocks: vec![], counting: false, hold, tape })
        .boxed()
}

/// receivers that each take one request and stay busy: the shape in which a lost wake-up shows
pub fn c07_hold_strategy() -> BoxedStrategy<QueueCase> {
    (2usize..=4, proptest::collection::vec(proptest::collection::vec(0u8..2, 1..=3), 1..=2), tape_strategy(120))
        .prop_map(|(c, mut pushers, tape)| {
            // at most one element per receiver
            let mut total = 0;
            for p in pushers.iter_mut() {
                let room = c - total;
                p.truncate(room);
                total += p.len();
            }
            pushers.retain(|p| !p.is_empty());
            QueueCase { pushers, sleeps: vec![], receivers: vec![vec![RecvOp::Recv]; c], unblocks: vec![], counting: false, hold: true, tape }
        })
        .boxed()
}

pub fn c17_queue_strategy() -> BoxedStrategy<QueueCase> {
    prop_oneof![
        // (a) counting: recv() only, u generated unblocks, topped up to one per receiver
        3 => (proptest::collection::vec(proptest::collection::vec(0u8..3, 0..=3), 1..=2), 1usize..=4, proptest::collection::vec(0u8..6, 0..=4), tape_strategy(200)).prop_map(|(pushers, c, mut unblocks, tape)| {
            unblocks.truncate(c);
            QueueCase { pushers, sleeps: vec![], receivers: vec![vec![RecvOp::Recv]; c], unblocks, counting: true, hold: false, tape }
        }),
        // (b) mixed operations with unblocks in flight
        2 => (proptest::collection::vec(proptest::collection::vec(0u8..3, 0..=3), 1..=2), proptest::collection::vec(proptest::collection::vec(recv_op(), 1..4), 1..=3), proptest::collection::vec(0u8..6, 1..=3), tape_strategy(200))
            .prop_map(|(pushers, receivers, unblocks, tape)| QueueCase { pushers, sleeps: vec![], receivers, unblocks, counting: false, hold: false, tape }),
        // (c) timed receivers only (bounds under virtual time)
        2 => (proptest::collection::vec(proptest::collection::vec(0u8..4, 0..=3), 1..=2), proptest::collection::vec(proptest::collection::vec(prop_oneof![3 => proptest::sample::select(vec![0u64, 1, 5, 20, 100]).prop_map(RecvOp::RecvTimeout), 1 => Just(RecvOp::TryRecv)], 1..3), 1..=3), tape_strategy(200))
            .prop_map(|(pushers, receivers, tape)| QueueCase { pushers, sleeps: vec![], receivers, unblocks: vec![], counting: false, hold: false, tape }),
        // (d) one timed receiver, pollers that steal, pushes spread over virtual time: every wake-up
        // that finds the queue empty again must leave the rest of the timeout intact
        2 => (proptest::collection::vec(proptest::collection::vec(0u8..2, 1..=4), 1..=2), proptest::collection::vec(proptest::collection::vec(proptest::sample::select(vec![0u16, 2, 3, 7, 13, 30, 45, 60]), 1..=4), 2), proptest::sample::select(vec![5u64, 20, 50, 100]), 1usize..=2, tape_strategy(200))
            .prop_map(|(pushers, sleeps, t, pollers, tape)| {
                let mut receivers = vec![vec![RecvOp::RecvTimeout(t)]];
                for _ in 0..pollers {
                    receivers.push(vec![RecvOp::TryRecv]);
                }
                QueueCase { pushers, sleeps, receivers, unblocks: vec![], counting: false, hold: false, tape }
            }),
    ]
    .boxed()
}

// ------------------------------------------------------------------------------------------
// sequential model-based histories (one task, virtual clock): exact accounting of tokens

#[derive(Clone, Debug, Serialize, Deserialize, PartialEq, Eq)]
pub enum SeqOp {
    Push,
    Unblock,
    TryRecv,
    RecvTimeout(u64),
    /// only executed when the model says something (element or token) is queued
    Recv,
}

#[derive(Clone, Debug, Serialize, Deserialize)]
pub struct SeqCase {
    pub ops: Vec<SeqOp>,
}

pub fn seq_strategy() -> BoxedStrategy<SeqCase> {
    proptest::collection::vec(
        prop_oneof![
            4 => Just(SeqOp::Push),
            3 => Just(SeqOp::Unblock),
            3 => Just(SeqOp::TryRecv),
            2 => proptest::sample::select(vec![0u64, 1, 5, 20, 100, u64::MAX]).prop_map(SeqOp::RecvTimeout),
            3 => Just(SeqOp::Recv),
        ],
        1..40,
    )
    .prop_map(|ops| SeqCase { ops })
    .boxed()
}

pub fn run_seq_case(case: &SeqCase) -> Verdict {
    run_seq_case_for("C17", case)
}

pub fn run_seq_case_for(prop: &'static str, case: &SeqCase) -> Verdict {
    let checks_done = Arc::new(AtomicBool::new(false));
    let viol: Arc<StdMutex<Option<(String, String)>>> = Arc::new(StdMutex::new(None));
    let stats: Arc<StdMutex<(usize, usize, usize)>> = Arc::new(StdMutex::new((0, 0, 0)));
    let c = case.clone();
    let (cd, vi, st2) = (checks_done.clone(), viol.clone(), stats.clone());
    let res = run_exec(&[], checks_done.clone(), move || {
        let clock = rt::begin_execution();
        let q: Arc<MessagesQueue<u32>> = MessagesQueue::with_capacity(8);
        let mut elems: std::collections::VecDeque<u32> = Default::default();
        let mut tokens: usize = 0;
        let mut next_id = 0u32;
        let mut token_returns = 0usize;
        let mut unblocks = 0usize;
        let mut with_both = 0usize;
        let fail_with = |k: &str, d: String| {
            let mut v = vi.lock().unwrap();
            if v.is_none() {
                *v = Some((k.to_string(), d));
            }
        };
        for (i, op) in c.ops.iter().enumerate() {
            let t0 = rt::time::Instant::now();
            let waits0 = rt::probe::condvar_waits_of_current_task();
            let (r, kind): (Option<u32>, &str) = match op {
                SeqOp::Push => {
                    q.push(next_id);
                    elems.push_back(next_id);
                    next_id += 1;
                    continue;
                }
                SeqOp::Unblock => {
                    q.unblock();
                    tokens += 1;
                    unblocks += 1;
                    continue;
                }
                SeqOp::TryRecv => (q.try_pop(), "try_recv"),
                SeqOp::RecvTimeout(ms) => {
                    if *ms == u64::MAX && elems.is_empty() && tokens == 0 {
                        continue; // without a limit it would block forever by design
                    }
                    (q.pop_timeout(timeout_of(*ms)), "recv_timeout")
                }
                SeqOp::Recv => {
                    if elems.is_empty() && tokens == 0 {
                        continue; // would block forever by design
                    }
                    (q.pop(), "recv")
                }
            };
            let elapsed = t0.elapsed();
            let waits = rt::probe::condvar_waits_of_current_task() - waits0;
            if !elems.is_empty() && tokens > 0 {
                with_both += 1;
            }
            if kind == "try_recv" && waits != 0 {
                fail_with("try_recv-blocked", format!("op {}: try_recv waited {} times", i, waits));
            }
            match r {
                Some(v) => {
                    // requests come out in the order they were queued, each once
                    match elems.pop_front() {
                        Some(w) if w == v => {}
                        other => fail_with("element-reordered-or-invented", format!("op {} ({}): got {} but the oldest queued element is {:?}", i, kind, v, other)),
                    }
                    if let SeqOp::RecvTimeout(_) = op {
                        if elapsed.as_nanos() != 0 {
                            fail_with("recv_timeout-waited-although-queued", format!("op {}: element was queued, yet {} ns passed", i, elapsed.as_nanos()));
                        }
                    }
                }
                None => {
                    if tokens > 0 {
                        // this empty-handed return used up one unblock
                        tokens -= 1;
                        token_returns += 1;
                    } else if !elems.is_empty() {
                        fail_with("empty-handed-while-request-queued", format!("op {} ({}): returned nothing although {} requests are queued and no unblock is pending", i, kind, elems.len()));
                    } else if let SeqOp::RecvTimeout(ms) = op {
                        // genuinely empty: this is the timeout path
                        let t_ns = (*ms as u128) * 1_000_000;
                        let e = elapsed.as_nanos();
                        if e + 1_000_000 < t_ns {
                            fail_with("recv_timeout-too-early", format!("op {}: recv_timeout({} ms) returned empty-handed after {} ns", i, ms, e));
                        }
                        if e > t_ns.saturating_mul(2) {
                            fail_with("recv_timeout-too-late", format!("op {}: recv_timeout({} ms) returned empty-handed after {} ns", i, ms, e));
                        }
                    }
                }
            }
        }
        // drain: everything still queued comes out, tokens are used up one per call
        let mut guard = 0;
        while (!elems.is_empty() || tokens > 0) && guard < 200 {
            guard += 1;
            match q.try_pop() {
                Some(v) => match elems.pop_front() {
                    Some(w) if w == v => {}
                    other => fail_with("element-reordered-or-invented", format!("drain: got {} expected {:?}", v, other)),
                },
                None => {
                    if tokens > 0 {
                        tokens -= 1;
                        token_returns += 1;
                    } else {
                        fail_with("element-lost", format!("drain: queue empty but the model still holds {:?}", elems));
                        break;
                    }
                }
            }
        }
        if q.try_pop().is_some() {
            fail_with("element-invented", "queue not empty after the model was drained".to_string());
        }
        if token_returns != unblocks {
            fail_with("unblock-count", format!("{} unblock() calls but {} empty-handed returns attributable to them", unblocks, token_returns));
        }
        *st2.lock().unwrap() = (unblocks, with_both, c.ops.len());
        cd.store(true, Ordering::SeqCst);
        clock.finish();
    });
    match &res.end {
        ExecEnd::Completed | ExecEnd::Deadlock { after_checks: true, .. } => {}
        ExecEnd::Deadlock { after_checks: false, blocked } => return fail(format!("{}/seq/receive-blocked-although-something-queued", prop), blocked.chars().take(300).collect::<String>()),
        ExecEnd::Panic(m) => return fail(format!("{}/seq/panic", prop), m.clone()),
        ExecEnd::StepBound => return Verdict::Inconclusive("step bound".into()),
    }
    if let Some((k, d)) = viol.lock().unwrap().clone() {
        return fail(format!("{}/seq/{}", prop, k), d);
    }
    let (unblocks, with_both, _) = *stats.lock().unwrap();
    let mut g = if unblocks > 0 && with_both > 0 { Good::nontrivial() } else { Good::trivial() };
    g = g.class_if(unblocks > 0, "unblock-used").class_if(with_both > 0, "receive-with-token-and-request-queued").class_if(res.stats.clock_picks > 0, "timeout-fired");
    Verdict::Pass(g)
}

// ------------------------------------------------------------------------------------------
// Timed receivers that leave after one call, beside receivers that block for good, with pushes and
// unblock calls placed at sub-millisecond offsets around the moment a timeout runs out.  A
// wake-up handed to a receiver that is about to give up must not be lost for the others.

#[derive(Clone, Debug, Serialize, Deserialize, PartialEq, Eq)]
pub enum EdgeEvent {
    Push,
    Unblock,
}

#[derive(Clone, Debug, Serialize, Deserialize)]
pub struct EdgeCase {
    /// one-shot timed receivers: timeout in units of 100 µs
    pub timed: Vec<u16>,
    /// number of receivers that call recv() until it fails (always more than the unblock calls)
    pub blocking: usize,
    /// (virtual delay before the event in units of 100 µs, event), issued one after the other
    pub events: Vec<(u16, EdgeEvent)>,
    pub tape: Vec<u8>,
}

pub fn edge_strategy() -> BoxedStrategy<EdgeCase> {
    let t = proptest::sample::select(vec![10u16, 20, 50]);
    let delay = proptest::sample::select(vec![0u16, 1, 5, 9, 10, 11, 15, 19, 20, 21, 30, 45, 49, 50, 51]);
    (proptest::collection::vec(t, 1..=2), 1usize..=3, proptest::collection::vec((delay, prop_oneof![3 => Just(EdgeEvent::Push), 1 => Just(EdgeEvent::Unblock)]), 1..=4), tape_strategy(160))
        .prop_map(|(timed, blocking, mut events, tape)| {
            // at least one blocking receiver always stays: fewer unblock calls than blocking receivers
            let mut u = 0;
            for e in events.iter_mut() {
                if e.1 == EdgeEvent::Unblock {
                    if u + 1 >= blocking {
                        e.1 = EdgeEvent::Push;
                    } else {
                        u += 1;
                    }
                }
            }
            EdgeCase { timed, blocking, events, tape }
        })
        .boxed()
}

#[derive(Default, Clone)]
struct EdgeLog {
    got: Vec<u32>,
    blocking_released: usize,
    timed_done: usize,
    /// timed receivers that came back empty-handed well before their timeout (an unblock token)
    timed_none_early: usize,
    /// ... and around or after their timeout (either reading is possible)
    timed_none_late: usize,
    violations: Vec<(String, String)>,
}

pub fn run_edge_case(prop: &'static str, case: &EdgeCase) -> Verdict {
    let checks_done = Arc::new(AtomicBool::new(false));
    let log: Arc<StdMutex<EdgeLog>> = Arc::new(StdMutex::new(EdgeLog::default()));
    let phase = Arc::new(AtomicUsize::new(0));
    let c = case.clone();
    let (cd, lg, ph) = (checks_done.clone(), log.clone(), phase.clone());
    let pushes = case.events.iter().filter(|e| e.1 == EdgeEvent::Push).count();
    let unblocks = case.events.iter().filter(|e| e.1 == EdgeEvent::Unblock).count();
    let res = run_exec(&case.tape, checks_done.clone(), move || {
        let clock = rt::begin_execution();
        let q: Arc<MessagesQueue<u32>> = MessagesQueue::with_capacity(8);
        let sh = Arc::new(Shared { st: rt::sync::Mutex::new(St::default()), cv: rt::sync::Condvar::new() });
        let mut handles = vec![];
        for t in c.timed.iter().copied() {
            let (q, sh, lg) = (q.clone(), sh.clone(), lg.clone());
            handles.push(shuttle::thread::spawn(move || {
                let t0 = rt::time::Instant::now();
                let timeout = Duration::from_micros(t as u64 * 100);
                let r = q.pop_timeout(timeout);
                let el = t0.elapsed();
                {
                    let mut l = lg.lock().unwrap();
                    l.timed_done += 1;
                    match r {
                        Some(id) => l.got.push(id),
                        None => {
                            if el + Duration::from_millis(1) < timeout {
                                l.timed_none_early += 1;
                            } else {
                                l.timed_none_late += 1;
                            }
                        }
                    }
                }
                let _g = sh.st.lock().unwrap();
                sh.cv.notify_all();
            }));
        }
        for _ in 0..c.blocking {
            let (q, sh, lg) = (q.clone(), sh.clone(), lg.clone());
            handles.push(shuttle::thread::spawn(move || {
                loop {
                    let r = q.pop();
                    {
                        let mut l = lg.lock().unwrap();
                        match r {
                            Some(id) => l.got.push(id),
                            None => l.blocking_released += 1,
                        }
                    }
                    let _g = sh.st.lock().unwrap();
                    sh.cv.notify_all();
                    drop(_g);
                    if r.is_none() {
                        break;
                    }
                }
            }));
        }
        ph.store(1, Ordering::SeqCst);
        let mut next = 0u32;
        for (d, e) in &c.events {
            if *d > 0 {
                rt::thread::sleep(Duration::from_micros(*d as u64 * 100));
            } else {
                rt::thread::yield_now();
            }
            match e {
                EdgeEvent::Push => {
                    q.push(next);
                    next += 1;
                }
                EdgeEvent::Unblock => q.unblock(),
            }
        }
        ph.store(2, Ordering::SeqCst);
        // every timed receiver comes back; a blocking receiver is always left, so every element is
        // received (a receiver blocked while one is queued shows as a deadlock here)
        {
            let mut st = sh.st.lock().unwrap();
            loop {
                let (got, td) = {
                    let l = lg.lock().unwrap();
                    (l.got.len(), l.timed_done)
                };
                if got >= pushes && td >= c.timed.len() {
                    break;
                }
                st = sh.cv.wait(st).unwrap();
            }
        }
        ph.store(3, Ordering::SeqCst);
        // each unblock call has released a receiver, counting the ambiguous timed ones
        {
            let mut st = sh.st.lock().unwrap();
            loop {
                let (enough, still_blocked) = {
                    let l = lg.lock().unwrap();
                    (l.blocking_released + l.timed_none_early + l.timed_none_late >= unblocks, c.blocking - l.blocking_released)
                };
                // an unblock marker must not sit in the queue while a receiver stays blocked in
                // recv(): that call to unblock() would have released nobody
                let (_elems, markers) = q.verif_counts();
                if enough && !(markers > 0 && still_blocked > 0) {
                    break;
                }
                st = sh.cv.wait(st).unwrap();
            }
        }
        {
            let mut l = lg.lock().unwrap();
            if l.blocking_released + l.timed_none_early > unblocks {
                let d = format!("{} unblock() calls, yet {} blocking receivers were released and {} timed ones came back early", unblocks, l.blocking_released, l.timed_none_early);
                l.violations.push(("more-receivers-released-than-unblock-calls".into(), d));
            }
        }
        ph.store(4, Ordering::SeqCst);
        // teardown: one unblock per blocking receiver still there
        loop {
            let left = c.blocking - lg.lock().unwrap().blocking_released;
            if left == 0 {
                break;
            }
            q.unblock();
            let mut st = sh.st.lock().unwrap();
            while c.blocking - lg.lock().unwrap().blocking_released == left {
                st = sh.cv.wait(st).unwrap();
            }
        }
        ph.store(5, Ordering::SeqCst);
        for h in handles {
            let _ = h.join();
        }
        let mut leftovers = vec![];
        for _ in 0..(pushes + unblocks + c.blocking + 2) {
            if let Some(v) = q.try_pop() {
                leftovers.push(v);
            }
        }
        if !leftovers.is_empty() {
            lg.lock().unwrap().violations.push(("element-left-in-queue".into(), format!("{:?}", leftovers)));
        }
        cd.store(true, Ordering::SeqCst);
        clock.finish();
    });
    let l = log.lock().unwrap().clone();
    let ph = phase.load(Ordering::SeqCst);
    match &res.end {
        ExecEnd::Completed | ExecEnd::Deadlock { after_checks: true, .. } => {}
        ExecEnd::Deadlock { after_checks: false, blocked } => {
            let sig = match ph {
                0..=2 => format!("{}/queue/wake-up-lost-with-a-receiver-giving-up", prop),
                3 | 4 => format!("{}/queue/unblock-did-not-release-a-receiver", prop),
                _ => format!("{}/queue/deadlock", prop),
            };
            return fail(sig, format!("no runnable task in phase {} (2 = {} elements pushed, {} received, {} of {} timed receivers back; 3 = waiting for {} releases): {}", ph, pushes, l.got.len(), l.timed_done, case.timed.len(), unblocks, blocked.chars().take(300).collect::<String>()));
        }
        ExecEnd::Panic(m) => return fail(format!("{}/queue/panic", prop), m.clone()),
        ExecEnd::StepBound => return Verdict::Inconclusive("step bound exceeded".into()),
    }
    if let Some((k, d)) = l.violations.first() {
        return fail(format!("{}/queue/{}", prop, k), d.clone());
    }
    let mut got = l.got.clone();
    got.sort();
    let want: Vec<u32> = (0..pushes as u32).collect();
    if got != want {
        let mut dd = got.clone();
        dd.dedup();
        let kind = if dd.len() != got.len() { "duplicated" } else if got.len() < want.len() { "lost" } else { "invented" };
        return fail(format!("{}/queue/element-{}", prop, kind), format!("pushed {:?}, received {:?}", want, got));
    }
    let edge = l.timed_none_late > 0 && (pushes + unblocks) > 0;
    let mut g = if res.stats.clock_picks > 0 { Good { nontrivial: Some(res.stats.trace_hash), classes: vec![], extra_evals: 0 } } else { Good::trivial() };
    g = g
        .class(format!("timed={}", case.timed.len()))
        .class(format!("blocking={}", case.blocking))
        .class_if(edge, "timed-receiver-gave-up")
        .class_if(l.timed_none_early > 0, "timed-receiver-released-by-unblock")
        .class_if(unblocks > 0, "unblock-used")
        .class_if(res.stats.preemptions > 0, "preempted");
    Verdict::Pass(g)
}
