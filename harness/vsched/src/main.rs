//! Harness binary for the `hook-sched` flavour: tiny-http compiled against the controllable
//! runtime; schedules and virtual time are generated inputs.

mod convsched;
#[path = "../../vreal/src/interp.rs"]
mod interp;
#[path = "../../vhook/src/memrun.rs"]
mod memrun;
mod pool;
mod queue;
mod sched;
mod server;

use vcore::cli::{drive, Cli};
use proptest::strategy::Strategy;
use vcore::runner::{make_part, Part};

fn main() {
    let cli = Cli::parse("vsched");
    vcore::panics::install();
    let mut parts: Vec<Part> = vec![];
    let sched_assumptions = vec![
        "controlled runtime: interleavings at the granularity of synchronisation operations, sequentially consistent atomics, no spurious wake-ups; notify_one wakes any one waiter; timeouts fire in deadline order at schedule-chosen moments",
        "a deadlock report after every oracle was evaluated (a minimum-pool worker parked without timeout at teardown) is tolerated and counted as teardown-leftover",
    ];
    // systematic schedule sweeps (sched.rs): quick = every schedule with one deviation from the
    // default one, thorough = with up to two (cut at a budget per configuration)
    let sweep_depth: usize = if cli.thorough { 2 } else { 1 };
    let sweep_cap: u64 = if cli.thorough { 40_000 } else { 6_000 };
    let sweep_cases: u64 = if cli.thorough { 96 } else { 32 };
    let (rule, assumptions): (&str, Vec<&str>) = match cli.property.as_str() {
        "C08" => {
            parts.push(make_part("sched-pool", "SCHED", cli.cases(6_000, 300_000), || pool::pool_strategy(12), |_| (), |_, c| pool::run_pool_case(c)));
            parts.push(make_part("sched-server", "SCHED", cli.cases(2_500, 100_000), || server::server_strategy(9, false), |_| (), |_, c| server::run_server_case("C08", c)));
            parts.push(make_part("sched-server-edge", "SCHED", cli.cases(3_000, 150_000), server::server_edge_strategy, |_| (), |_, c| server::run_server_edge_case("C08", c)));
            {
                let th = cli.thorough;
                let mut p = make_part("sched-pool-many", "SCHED", if th { 10 } else { 2 }, move || pool::pool_many_strategy(th), |_| (), |_, c| pool::run_pool_case(c));
                p.max_shrink_iters = 2;
                parts.push(p);
            }
            parts.push(make_part("sweep-pool", "SCHED", sweep_cases, || pool::pool_strategy(7), |_| (), move |_, c| {
                sched::sweep_verdict(sweep_depth, sweep_cap, &|t| {
                    let mut c2 = c.clone();
                    c2.tape = t.to_vec();
                    pool::run_pool_case(&c2)
                })
            }));
            (
                "part sched-server-edge: the whole Server with one application thread in recv_timeout(T) (1-200 ms, one call) and 1-2 in recv(), 0-5 idle connections, and a connection whose 1-2 requests arrive a generated number of nanoseconds around the end of T (mostly within its last millisecond): they are delivered and answered without anything happening on another connection, else an exact deadlock report; non-trivial: arrival in the last millisecond; part sched-pool: TaskPool alone under the controlled scheduler: N=1..12 long-lived tasks (each announces itself, then blocks until all N have started), optional warm-up burst and idle phase (virtual time) before, generated arrival pattern and schedule tape; oracle: all N run at the same time (otherwise: exact deadlock report), each task body exactly once; non-trivial: N >= 5, distinct by case and executed decision trace; part sched-server: the whole Server over the in-memory listener: bursts of 1-9 keep-alive connections each sending 1-2 requests, 1-2 application threads answering, every client waits for its own responses while all the others stay open and closes only after all have theirs, optionally 1-3 further connections stalled in the middle of a request head for the whole run; oracle: completes (otherwise exact deadlock report), each connection gets exactly its own responses; in half of the cases the application threads hold their requests until each of them has one; part sched-pool-many: 257 / 300 (thorough: up to 1100) simultaneously long-lived tasks under the default schedule (no fixed limit may stand between a connection and its worker); part sweep-pool: for each generated pool configuration (N <= 7) every schedule with one (quick) / up to two (thorough) deviations from the default schedule",
                sched_assumptions,
            )
        }
        "C01" => {
            parts.push(make_part("sched-conn", "SCHED", cli.cases(6_000, 300_000), convsched::c01_strategy, |_| (), |_, c| convsched::c01_oracle(c, &convsched::run_sched_conv(c))));
            parts.push(make_part("sweep-conn", "SCHED", sweep_cases, convsched::c01_strategy, |_| (), move |_, c| {
                sched::sweep_verdict(sweep_depth, sweep_cap, &|t| {
                    let mut c2 = c.clone();
                    c2.tape = t.to_vec();
                    convsched::c01_oracle(&c2, &convsched::run_sched_conv(&c2))
                })
            }));
            (
                "part sched-conn: the real ClientConnection over an in-memory connection under the controlled scheduler: 2-5 pipelined requests, per request respond (sizes around the 1 KiB write buffer, identity and chunked) / raw writer in parts with or without flush / drop, requests grouped onto handler tasks (own task each, or several held by one task in arrival order), a generated permutation in which handlers enter their answer, generated segmentation and schedule tape; oracle: the bytes written parse into exactly one message per request, in request order, bodies byte-exact, then end-of-stream; blocked-forever = exact deadlock report; part sweep-conn: the same cases under every schedule with one (quick) / up to two (thorough) deviations from the default schedule; non-trivial: the order in which handlers entered their answer has >= 1 inversion; distinct by case and executed decision trace",
                sched_assumptions,
            )
        }
        "C07" => {
            parts.push(make_part("sched-queue", "SCHED", cli.cases(8_000, 500_000), queue::c07_queue_strategy, |_| (), |_, c| queue::run_queue_case("C07", c)));
            parts.push(make_part("sched-queue-hold", "SCHED", cli.cases(6_000, 300_000), queue::c07_hold_strategy, |_| (), |_, c| queue::run_queue_case("C07", c)));
            parts.push(make_part("sched-server", "SCHED", cli.cases(1_500, 80_000), || server::server_strategy(6, false), |_| (), |_, c| server::run_server_case("C07", c)));
            parts.push(make_part("seq-model", "SCHED", cli.cases(4_000, 200_000), queue::seq_strategy, |_| (), |_, c| queue::run_seq_case_for("C07", c)));
            parts.push(make_part("sched-queue-edge", "SCHED", cli.cases(6_000, 300_000), queue::edge_strategy, |_| (), |_, c| queue::run_edge_case("C07", c)));
            parts.push(make_part("sweep-queue-hold", "SCHED", sweep_cases, queue::c07_hold_strategy, |_| (), move |_, c| {
                sched::sweep_verdict(sweep_depth, sweep_cap, &|t| {
                    let mut c2 = c.clone();
                    c2.tape = t.to_vec();
                    queue::run_queue_case("C07", &c2)
                })
            }));
            parts.push(make_part("sweep-queue-edge", "SCHED", sweep_cases, queue::edge_strategy, |_| (), move |_, c| {
                sched::sweep_verdict(sweep_depth, sweep_cap, &|t| {
                    let mut c2 = c.clone();
                    c2.tape = t.to_vec();
                    queue::run_edge_case("C07", &c2)
                })
            }));
            (
                "part sched-queue: MessagesQueue alone under the controlled scheduler: 1-3 pusher tasks (1-4 elements each, generated yields) x 1-3 receiver tasks with generated operation lists over recv / recv_timeout(0,5,50 ms virtual) / try_recv, schedule tape; oracle: received multiset = pushed (no loss, no duplicate), wire order for a single receiver, nothing left queued; lost wake-up = exact deadlock report while main waits for the count; part sched-queue-hold: 2-4 receivers that each take one request and stay busy with it (a long handler) while at most as many requests arrive in bursts: a request left queued while another receiver is still blocked deadlocks the scenario; part sched-server: the whole Server over the in-memory listener with application threads receiving through recv / recv_timeout / try_recv / the incoming_requests iterator: every connection gets exactly its own responses (each request delivered to exactly one thread, answered once); part seq-model: single-task histories of push / unblock / try_recv / recv_timeout / recv against a reference model: every queued request comes out, in order, as soon as no unblock is pending before it (a poller is never starved by a stale unblock marker); part sched-queue-edge: one-shot recv_timeout receivers (1 / 2 / 5 ms) beside 1-3 receivers blocked in recv(), 1-4 pushes and unblock calls at offsets of 0-5.1 ms in steps down to 0.1 ms (virtual time): every element is received although a timed receiver may give up at the very moment it is woken, never more releases than unblock calls; parts sweep-queue-hold / sweep-queue-edge: the same scenarios under every schedule with one (quick) / up to two (thorough) deviations from the default schedule; non-trivial: pushers+receivers >= 3 and a receiver really parked on the queue's condition variable",
                sched_assumptions,
            )
        }
        "C15" => {
            parts.push(make_part("sched-server", "SCHED", cli.cases(1_500, 80_000), || server::server_strategy(9, true), |_| (), |_, c| server::run_server_case("C15", c)));
            (
                "part sched-server: the whole Server over the in-memory listener under virtual time: bursts of 1-9 connections whose clients go away (after their answers, or in the middle of a small body), idle phases of 5-6 s, further bursts and single connections: the server keeps accepting and serving the later ones (else an exact deadlock report)",
                sched_assumptions,
            )
        }
        "C17" => {
            parts.push(make_part("sched-queue", "SCHED", cli.cases(8_000, 400_000), queue::c17_queue_strategy, |_| (), |_, c| queue::run_queue_case("C17", c)));
            parts.push(make_part("seq-model", "SCHED", cli.cases(8_000, 400_000), queue::seq_strategy, |_| (), |_, c| queue::run_seq_case(c)));
            parts.push(make_part("sched-queue-edge", "SCHED", cli.cases(6_000, 300_000), queue::edge_strategy, |_| (), |_, c| queue::run_edge_case("C17", c)));
            parts.push(make_part("sched-server", "SCHED", cli.cases(1_500, 80_000), || server::server_strategy(5, false), |_| (), |_, c| server::run_server_case("C17", c)));
            parts.push(make_part("sweep-queue", "SCHED", sweep_cases, queue::c17_queue_strategy, |_| (), move |_, c| {
                sched::sweep_verdict(sweep_depth, sweep_cap, &|t| {
                    let mut c2 = c.clone();
                    c2.tape = t.to_vec();
                    queue::run_queue_case("C17", &c2)
                })
            }));
            (
                "part sched-server: the whole Server over the in-memory listener with application threads that use recv / recv_timeout / try_recv / one incoming_requests() iterator stepped again and again; in a seventh of the cases unblock() is called once before any of them exists and they only poll with try_recv, in another seventh it is called while iterators are being stepped: every request is still delivered, and the empty-handed iterator steps never outnumber the unblock() calls; part sched-queue: (a) counting: 1-4 receivers using recv() only, 0-2 pushers, u generated unblock() calls at generated moments then topped up to one per receiver: #recv errors <= #unblock calls at every return, = #receivers at the end, elements conserved and ordered; (b) mixed recv/recv_timeout/try_recv lists with unblocks in flight: conservation, try_recv performs zero waits on the condition variable; (c) timed receivers only: an empty-handed recv_timeout(T) takes >= T-1 ms and (single timer source) <= 2T of virtual time; part seq-model: single-task histories of push/unblock/try_recv/recv_timeout/recv against a reference model (FIFO of requests + count of pending unblocks): requests come out in order, an empty-handed return with a request queued uses up exactly one unblock, totals match, timed bounds exact; part sched-queue-edge as in C07 with the release accounting; part sweep-queue: the sched-queue scenarios under every schedule with one (quick) / up to two (thorough) deviations from the default schedule; non-trivial: an unblock issued and a receiver really parked (sched-queue) / a receive executed with both a request and an unblock pending (seq-model)",
                sched_assumptions,
            )
        }
        "C11" => {
            parts.push(make_part("sched-conn", "SCHED", cli.cases(6_000, 200_000), convsched::c11_strategy, |_| (), |_, c| convsched::c11_oracle(c, &convsched::run_sched_conv(c))));
            // through the whole server: pipelined requests reach application threads that each hold
            // theirs until all of them have one (the read-ahead includes the hand-over to recv())
            parts.push(make_part("sched-server", "SCHED", cli.cases(1_500, 60_000), || server::server_strategy(5, false), |_| (), |_, c| server::run_server_case("C11", c)));
            (
                "part sched-conn: the real ClientConnection under the controlled scheduler: pipelines of 2-8 requests whose bodies are absent or <= 1024 bytes (1024 forced often), optionally one request with a larger or chunked body at a generated position; application programs: (a) collect every request up to and including the first streamed one before answering any, (b) read the streamed body to its end and - still holding that request unanswered - take its successor, (c) answer the streamed one, successors handled by another task; oracle: every collect succeeds while the client has received nothing (otherwise exact deadlock report), afterwards the whole pipeline is delivered and answered; part sched-server: the whole Server (in-memory listener): connections with 1-2 pipelined requests, 1-2 application threads that in half of the cases hold their request until each of them has one; non-trivial: >= 2 requests held unanswered at once",
                sched_assumptions,
            )
        }
        "C13" => {
            parts.push(make_part("sched-pauses", "SCHED", cli.cases(6_000, 300_000), convsched::c13_pause_strategy, |_| (), |_, c| convsched::c13_pause_test(c)));
            (
                "part sched-pauses: the C01 pipelines (2-5 requests, handlers on their own tasks answering through respond / raw writer / drop) run twice over the real ClientConnection under the controlled scheduler: once with the whole client stream and the half-close in place before the server starts, once sent by a client task with generated pauses (0 / 1 / 50 / 400 ms of virtual time) between the segments and before the half-close, each under its own schedule tape; oracle (metamorphic): the delivered requests and the response stream (Date blanked) and its end are the same",
                sched_assumptions,
            )
        }
        "C20" => {
            parts.push(make_part("sched-server", "SCHED", cli.cases(3_000, 200_000), || server::server_strategy(10, true), |_| (), |_, c| server::run_server_case("C20", c)));
            (
                "part sched-server: the whole Server over the in-memory listener under virtual time: histories of 1-3 bursts of 1-10 connections (each answered, then closed) separated by idle phases of 5.2 / 6 s virtual time or by light traffic (single connections 2 s apart), then the server is dropped either with nothing outstanding or while the application holds a request that it answers afterwards; oracle: live library threads after an idle phase <= accept + 4, the next burst is still served, connect is refused after the drop, the held request's answer reaches the client, the accept thread ends; non-trivial: a burst > 4 or a drop with a request outstanding",
                sched_assumptions,
            )
        }
        "C10" => {
            parts.push(make_part("sched-mem", "SCHED", cli.cases(4_000, 200_000), || vcore::gen::c10_strategy(proptest::strategy::Just(vcore::conv::Transport::Mem).boxed()), |_| (), |_, c| convsched::mem_sched_verdict("C10", c, &|c, e, o| vcore::oracles::c10_oracle(c, e, o))));
            (
                "part sched-mem: the C10 cases through the sequential in-memory engine, executed under the controlled runtime: a connection thread that blocks on itself (e.g. on a writer turn only it could release) is an exact deadlock report instead of a hang",
                sched_assumptions,
            )
        }
        "C12" => {
            parts.push(make_part("sched-mem", "SCHED", cli.cases(3_000, 150_000), || vcore::gen::c12_strategy(proptest::strategy::Just(vcore::conv::Transport::Mem).boxed()), |_| (), |_, c| convsched::mem_sched_verdict("C12", c, &|c, e, o| vcore::oracles::c12_oracle(c, e, o))));
            parts.push(make_part("sched-withheld-body", "SCHED", cli.cases(2_000, 100_000), convsched::c12_withheld_strategy, |_| (), |_, c| convsched::run_c12_withheld(c)));
            ("part sched-mem: the C12 cases through the sequential in-memory engine under the controlled runtime (self-blocking = exact deadlock report); part sched-withheld-body: connection task and handler task under the controlled scheduler: the ending request (Connection: close / HTTP/1.0) has a streamed body the client has not finished sending, the application answers without reading, the client keeps its sending side open: all responses arrive and the server closes its sending side while the rest of the body is still withheld (otherwise exact deadlock report)", sched_assumptions)
        }
        "C18" => {
            parts.push(make_part("sched-mem", "SCHED", cli.cases(3_000, 150_000), || vcore::gen::c18_strategy(proptest::strategy::Just(vcore::conv::Transport::Mem).boxed()), |_| (), |_, c| convsched::mem_sched_verdict("C18", c, &|c, e, o| vcore::oracles::c18_oracle(c, e, o))));
            parts.push(make_part("sched-conn", "SCHED", cli.cases(4_000, 200_000), convsched::c18_conn_strategy, |_| (), |_, c| convsched::c18_conn_oracle(c, &convsched::run_sched_conv(c))));
            ("part sched-mem: the C18 cases through the sequential in-memory engine under the controlled runtime (self-blocking = exact deadlock report); part sched-conn: 2-4 requests on one connection, with and without Expect: 100-continue, each handled by its own task (body read to its end / touched / not asked for, some virtual time between reading and answering), eager or paced client, generated schedule: every 100 stands directly before the final response of its own request, after all earlier final responses, exactly when the body was asked for; non-trivial: an interim response is due for a request that is not the first on its connection", sched_assumptions)
        }
        "C06" => {
            parts.push(make_part("sched-conn", "SCHED", cli.cases(4_000, 200_000), convsched::c01_strategy, |_| (), |_, c| {
                // the C01 scenarios (drops and unused writers among concurrent handlers) judged by
                // C06's clause: a dropped request never holds up the responses that follow it
                let so = convsched::run_sched_conv(c);
                if let Some(v) = convsched::exec_trouble("C06", "dropped-request-among-concurrent-handlers", &so) {
                    return v;
                }
                let exp = vcore::conv::expect(&c.case);
                if let Some((idx, have, want)) = so.late {
                    return vcore::runner::fail("C06/response-held-back-after-the-answer-returned", format!("request {} had been answered (respond / raw writer flushed and dropped / request dropped had returned), yet only {} of the {} final responses due were on the wire while other requests of the connection were still held", idx, have, want));
                }
                vcore::oracles::c06_oracle(&c.case, &exp, &so.obs)
            }));
            ("part sched-conn: pipelines with drops among concurrently answering handler tasks under the controlled scheduler: a held-up follower is an exact deadlock report; one final response per delivered request; when a finishing action returns, its response and all earlier ones are on the client's side although later requests of the connection are still held", sched_assumptions)
        }
        other => {
            eprintln!("vsched: no parts for property {}", other);
            std::process::exit(3)
        }
    };
    drive(&cli, parts, rule, &assumptions)
}
