//! Hand-written decoders from fuzzer bytes (`arbitrary::Unstructured`) to the abstract cases, so
//! that coverage-guided mutation of the input maps to *local* changes of the case.

use crate::conv::{ConvCase, Finish, Prog, ReadPlan, Step, Transport};
use crate::gen;
use crate::resp::{Ctor, HdrOp, RespCase, Via, LEN_BOUNDARY, SPECIAL_NAMES};
use crate::wire::{render, ChunkSpec, Conversation, Framing, Hdr, Malform, Place, ReqSpec};
use arbitrary::Unstructured;

type R<T> = arbitrary::Result<T>;

fn pick<'a, T: Clone>(u: &mut Unstructured<'a>, xs: &[T]) -> R<T> {
    let i = u.int_in_range(0..=xs.len() - 1)?;
    Ok(xs[i].clone())
}

fn len(u: &mut Unstructured<'_>, max: usize) -> R<usize> {
    Ok(match u.int_in_range(0u8..=3)? {
        0 => pick(u, LEN_BOUNDARY)?,
        1 => u.int_in_range(0..=64usize)?,
        2 => u.int_in_range(0..=3000usize)?,
        _ => u.int_in_range(0..=max)?,
    })
}

fn token(u: &mut Unstructured<'_>) -> R<String> {
    let n = u.int_in_range(1..=10usize)?;
    let alphabet = b"abcdefghijklmnopqrstuvwxyzABCDEFGHIJKLMNOPQRSTUVWXYZ0123456789-_.!#$%&'*+^`|~";
    let mut s = String::new();
    s.push((b'A' + u.int_in_range(0..=25u8)?) as char);
    for _ in 1..n {
        s.push(alphabet[u.int_in_range(0..=alphabet.len() - 1)?] as char);
    }
    Ok(s)
}

fn value(u: &mut Unstructured<'_>) -> R<String> {
    let n = u.int_in_range(0..=24usize)?;
    let mut s = String::new();
    for i in 0..n {
        let c = u.int_in_range(0x20u8..=0x7e)?;
        let c = if (i == 0 || i + 1 == n) && c == b' ' { b'x' } else { c };
        s.push(c as char);
    }
    Ok(s)
}

pub fn te_value(u: &mut Unstructured<'_>) -> R<Option<String>> {
    if u.ratio(1, 3)? {
        return Ok(None);
    }
    let n = u.int_in_range(1..=8usize)?;
    let mut parts = vec![];
    for _ in 0..n {
        let coding = pick(u, &["chunked", "identity", "Chunked", "IDENTITY", "gzip", "trailers", "deflate", "x"])?;
        let q = match u.int_in_range(0u8..=9)? {
            0 | 1 | 2 => String::new(),
            3 => ";q=0".into(),
            4 => ";q=1".into(),
            5 => format!(";q=0.{:03}", u.int_in_range(0..=999u32)?),
            6 => format!(";q=0.{}", u.int_in_range(0..=9u32)?),
            7 => pick(u, &[";q=", ";q=abc", ";q=1.5", ";q=-1", ";q =0.5", ";Q=0.5", ";q=NaN", ";q=inf", ";q=1e3"])?.to_string(),
            8 => ";foo=bar".into(),
            _ => format!(" ; q=0.{}", u.int_in_range(0..=9u32)?),
        };
        let pad = pick(u, &["", " ", "\t"])?;
        parts.push(format!("{}{}{}", pad, coding, q));
    }
    Ok(Some(parts.join(",")))
}

pub fn resp_case(u: &mut Unstructured<'_>) -> R<RespCase> {
    let body_len = len(u, 70_000)?;
    let ctor = pick(u, &[Ctor::New, Ctor::New, Ctor::New, Ctor::FromString, Ctor::FromData, Ctor::Empty, Ctor::NewEmpty])?;
    let with_data = u.ratio(1, 8)?;
    let empty = matches!(ctor, Ctor::Empty | Ctor::NewEmpty);
    let body_len = if empty && !with_data { 0 } else { body_len };
    let nh = u.int_in_range(0..=8usize)?;
    let mut headers = vec![];
    for _ in 0..nh {
        let special = u.ratio(1, 2)?;
        let name = if special { pick(u, SPECIAL_NAMES)?.to_string() } else { token(u)? };
        let name = if u.ratio(1, 4)? { name.to_ascii_lowercase() } else { name };
        let mut v = value(u)?;
        if name.eq_ignore_ascii_case("content-length") {
            v = body_len.to_string();
        }
        if name.eq_ignore_ascii_case("date") && u.ratio(1, 2)? {
            v = "Sun, 06 Nov 1994 08:49:37 GMT".into();
        }
        let via = if ctor == Ctor::New { pick(u, &[Via::Ctor, Via::Add, Via::With])? } else { pick(u, &[Via::Add, Via::With])? };
        headers.push(HdrOp { via, name, value: v });
    }
    let threshold = match u.int_in_range(0u8..=8)? {
        0 | 1 | 2 => None,
        3 => Some(0),
        4 => Some(1),
        5 => Some(body_len),
        6 => Some(body_len + 1),
        7 => Some(body_len.saturating_sub(1)),
        _ => Some(usize::MAX),
    };
    let np = u.int_in_range(0..=3usize)?;
    let mut pieces = vec![];
    for _ in 0..np {
        pieces.push(pick(u, &[1usize, 7, 1024, 8192, 8193, 20000])?);
    }
    Ok(RespCase {
        ctor,
        status: pick(u, &[200u16, 200, 200, 201, 204, 205, 206, 304, 100, 101, 199, 404, 500, 299, 600, 999])?,
        headers,
        body_len,
        body_seed: u.arbitrary()?,
        declared: u.ratio(2, 3)?,
        with_data,
        threshold,
        version: pick(u, &[(1u8, 1u8), (1, 1), (1, 1), (1, 0)])?,
        head: u.ratio(1, 8)?,
        te: te_value(u)?,
        pieces,
        upgrade: None,
        utf8: u.arbitrary()?,
        plan: if u.ratio(1, 3)? { 0 } else { u.arbitrary()? },
        wmode: if u.ratio(2, 3)? { 0 } else { u.int_in_range(0..=5u8)? },
    })
}

fn hdrs(u: &mut Unstructured<'_>, max: usize) -> R<Vec<Hdr>> {
    let n = u.int_in_range(0..=max)?;
    let mut v = vec![];
    for _ in 0..n {
        let name = loop {
            let t = token(u)?;
            if !["content-length", "transfer-encoding", "expect", "connection", "te", "upgrade"].contains(&t.to_ascii_lowercase().as_str()) {
                break t;
            }
        };
        v.push(Hdr { name, pre: pick(u, &[" ", "", "\t", "  "])?.to_string(), value: value(u)?, post: pick(u, &["", "", " ", "\t"])?.to_string() });
    }
    Ok(v)
}

fn chunks(u: &mut Unstructured<'_>, total: usize) -> R<Vec<ChunkSpec>> {
    let mut out = vec![];
    let mut rem = total;
    while rem > 0 && out.len() < 40 {
        let n = if out.len() == 39 { rem } else { u.int_in_range(1..=rem)?.min(match u.int_in_range(0u8..=3)? { 0 => 1, 1 => 16, 2 => 1024, _ => usize::MAX }) };
        let n = n.max(1).min(rem);
        out.push(ChunkSpec { len: n, upper: u.arbitrary()?, zeros: if u.ratio(1, 6)? { 2 } else { 0 }, ext: if u.ratio(1, 8)? { Some("a=b".into()) } else { None } });
        rem -= n;
    }
    if rem > 0 {
        out.push(ChunkSpec { len: rem, upper: false, zeros: 0, ext: None });
    }
    Ok(out)
}

fn framing(u: &mut Unstructured<'_>, max: usize) -> R<Framing> {
    Ok(match u.int_in_range(0u8..=4)? {
        0 => Framing::None,
        1 | 2 => Framing::Length { n: len(u, max)? },
        _ => {
            let n = len(u, max)?;
            Framing::Chunked { chunks: chunks(u, n)?, last_zeros: 0, last_ext: None }
        }
    })
}

fn read_plan(u: &mut Unstructured<'_>, body: usize) -> R<ReadPlan> {
    Ok(match u.int_in_range(0u8..=5)? {
        0 => ReadPlan::None,
        1 => ReadPlan::Sizes(vec![1]),
        2 => ReadPlan::Sizes(vec![(body / 2).max(1)]),
        3 => ReadPlan::Sizes(vec![body.max(1)]),
        4 => ReadPlan::Touch { calls: 1 },
        _ => ReadPlan::ToEof { buf: pick(u, &[1usize, 7, 512, 1024, 4096, 70000])?.max(if body > 20000 { 256 } else { 1 }), extra: u.int_in_range(0..=2u8)? },
    })
}

fn finish(u: &mut Unstructured<'_>) -> R<Finish> {
    Ok(match u.int_in_range(0u8..=5)? {
        0 | 1 | 2 => Finish::Respond { status: pick(u, &[200u16, 200, 404, 204, 304])?, body_len: pick(u, &[0usize, 3, 40, 1023, 1024, 1025, 9000])?, declared: u.ratio(3, 4)?, threshold: pick(u, &[None, None, Some(0usize), Some(usize::MAX)])? },
        3 => Finish::Drop,
        4 => Finish::Writer { body_len: pick(u, &[0usize, 10, 1500])?, cuts: vec![u.int_in_range(0..=1023u16)?], flush_mask: u.arbitrary()?, zero_writes: u.ratio(1, 3)?, how: u.int_in_range(0..=3u8)? },
        _ => Finish::WriterUnused,
    })
}

/// A conversation of 1-4 requests (bodies of every framing, optional Expect, Connection
/// variants, at most one malformation) with programs; returns the property whose oracle applies.
pub fn conv_case(u: &mut Unstructured<'_>) -> R<(&'static str, ConvCase)> {
    let n = u.int_in_range(1..=4usize)?;
    let mal_at = if u.ratio(1, 3)? { Some(u.int_in_range(0..=n - 1)?) } else { None };
    let mut conv = Conversation::default();
    let mut progs = vec![];
    let mut prop = "C09";
    for i in 0..n {
        let last = i + 1 == n;
        let version = if u.ratio(1, 6)? { "HTTP/1.0" } else { "HTTP/1.1" };
        let mut f = framing(u, 20_000)?;
        if version == "HTTP/1.0" {
            if let Framing::Chunked { .. } = f {
                f = Framing::None;
            }
        }
        let blen = gen::framing_body_len(&f);
        let expect = !matches!(f, Framing::None) && u.ratio(1, 8)?;
        let conn = if version == "HTTP/1.0" && !last {
            Some("keep-alive".to_string())
        } else if last && u.ratio(1, 4)? {
            Some(pick(u, &["close", "Close", "keep-alive, close"])?.to_string())
        } else {
            None
        };
        let mut r = gen::build_req(i as u32, if matches!(f, Framing::None) { "GET".into() } else { "POST".into() }, String::new(), version, hdrs(u, 3)?, f, None, u.arbitrary::<u8>()? as usize, u.arbitrary()?, conn, expect);
        let mut p = Prog { read: read_plan(u, blen)?, finish: finish(u)? };
        if expect {
            // the scripted client below sends everything at once: only programs that do not depend
            // on the interim response ordering
            p.read = ReadPlan::ToEof { buf: 2048, extra: 0 };
        }
        if Some(i) == mal_at {
            let nh = r.headers.len().max(1);
            let m = match u.int_in_range(0u8..=9)? {
                0 => Malform::ReqLineFields(u.int_in_range(0..=3u8)?),
                1 => Malform::VersionToken(pick(u, &["HTTP/1.2", "HTTP/2", "http/1.1", "HTTP/1.1x", "xyz"])?.to_string()),
                2 => Malform::VersionToken(pick(u, &["HTTP/2.0", "HTTP/3.0"])?.to_string()),
                3 => Malform::HeaderNoColon { at: u.int_in_range(0..=nh)?, text: pick(u, &["NoColon", " ", "\t", "a b"])?.to_string() },
                4 => Malform::NonAscii { place: pick(u, &[Place::RequestLine, Place::HeaderName(0), Place::HeaderValue(0)])?, byte: u.int_in_range(0x80u8..=0xff)?, tail: vec![] },
                5 => Malform::Expect(pick(u, &["100 continue", "200-ok", ""])?.to_string()),
                6 => Malform::WsBeforeName { at: u.int_in_range(0..=nh - 1)?, ws: pick(u, &[" ", "\t"])?.to_string() },
                7 => Malform::WsInName { at: u.int_in_range(0..=nh - 1)?, ws: " ".into() },
                8 => Malform::WsBeforeColon { at: u.int_in_range(0..=nh - 1)?, ws: pick(u, &[" ", "\t"])?.to_string() },
                _ => {
                    // needs a Content-Length header to replace
                    r.headers.retain(|h| !h.name.eq_ignore_ascii_case("transfer-encoding") && !h.name.eq_ignore_ascii_case("content-length") && !h.name.eq_ignore_ascii_case("expect"));
                    r.headers.push(Hdr::new("Content-Length", "0"));
                    r.framing = Framing::Length { n: 0 };
                    Malform::BadContentLength { at: r.headers.len() - 1, value: pick(u, &["", "+5", "-5", "abc", "5x", "5, 5", "18446744073709551616"])?.to_string() }
                }
            };
            // a rejected request must not carry a body the model does not account for
            if !matches!(m, Malform::BadContentLength { .. }) {
                r.headers.retain(|h| !h.name.eq_ignore_ascii_case("transfer-encoding") && !h.name.eq_ignore_ascii_case("content-length") && !h.name.eq_ignore_ascii_case("expect") && !h.name.eq_ignore_ascii_case("connection"));
                r.framing = Framing::None;
                if r.headers.is_empty() {
                    r.headers.push(Hdr::new("Host", "h"));
                }
            }
            // clamp header indices after the edits above
            let nh = r.headers.len();
            let m = match m {
                Malform::HeaderNoColon { at, text } => Malform::HeaderNoColon { at: at.min(nh), text },
                Malform::WsBeforeName { at, ws } => Malform::WsBeforeName { at: at.min(nh - 1), ws },
                Malform::WsInName { at, ws } => Malform::WsInName { at: at.min(nh - 1), ws },
                Malform::WsBeforeColon { at, ws } => Malform::WsBeforeColon { at: at.min(nh - 1), ws },
                other => other,
            };
            prop = match m {
                Malform::WsBeforeName { .. } | Malform::WsInName { .. } | Malform::WsBeforeColon { .. } | Malform::BadContentLength { .. } | Malform::ContentLengthLinesDisagree { .. } => "C16",
                _ => "C10",
            };
            r.mal = Some(m);
        }
        conv.reqs.push(r);
        progs.push(p);
    }
    let case0 = ConvCase { conv, progs, script: vec![], transport: Transport::Mem };
    let exp = crate::conv::expect(&case0);
    let total = render(&case0.conv).bytes.len();
    let script = vec![Step::Send { from: 0, to: total }, Step::AwaitFinals(exp.msgs.len()), if exp.ends_after.is_some() { Step::AwaitEof } else { Step::HalfClose }];
    Ok((prop, ConvCase { script, ..case0 }))
}
