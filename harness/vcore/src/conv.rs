//! Conversation cases: handler programs, client scripts, observations, the reference model
//! (`expect`) written from the property statements, and the oracle components the per-property
//! checks are assembled from.

use crate::panics::PanicRec;
use crate::respparse::{parse_one, BodyFraming, Msg, ParseErr};
use crate::wire::{Conversation, Framing, Malform, ReqSpec};
use serde::{Deserialize, Serialize};

// ------------------------------------------------------------------------------------------
// handler programs

#[derive(Clone, Debug, PartialEq, Eq, Serialize, Deserialize)]
pub enum ReadPlan {
    /// never touches the body
    None,
    /// `as_reader()` then one read per buffer size, then stops whatever came back
    Sizes(Vec<usize>),
    /// reads with buffer size `buf` until `Ok(0)`/error, then `extra` further reads
    ToEof { buf: usize, extra: u8 },
    /// calls `as_reader()` `calls` times without reading
    Touch { calls: u8 },
    /// reads the whole body through another entry point of `std::io::Read`: 0 read_to_end,
    /// 1 read_to_string, 2 io::copy into a sink, 3 bytes().count(), 4 read_exact(len) + one read,
    /// 5 read_vectored loop
    Std { how: u8 },
}

#[derive(Clone, Debug, PartialEq, Eq, Serialize, Deserialize)]
pub enum Finish {
    Respond { status: u16, body_len: usize, declared: bool, threshold: Option<usize> },
    /// `into_writer()`, then a complete hand-made response written in pieces cut at `cuts`
    /// (fractions of 1024), flushing after piece i when bit i of `flush_mask` is set
    Writer {
        body_len: usize,
        cuts: Vec<u16>,
        flush_mask: u8,
        /// also issue `write(&[])` calls between the pieces (forwarding loops do that)
        #[serde(default)]
        zero_writes: bool,
        /// which entry point of `std::io::Write` writes the pieces: 0 write_all, 1 write in a
        /// loop, 2 write_vectored, 3 write! (write_fmt)
        #[serde(default)]
        how: u8,
    },
    /// `respond()` with a body reader that fails (error, or panic) after `fail_after` bytes of a
    /// declared `declared_len`: whatever was written, no second response may follow
    RespondFailing { declared_len: usize, fail_after: usize, panic: bool },
    /// `upgrade(proto, 101)`, read the stream to its end, write a short raw reply
    Upgrade { proto: String },
    Drop,
    /// panic while holding the request (real-thread engines only)
    Panic,
    /// `into_writer()` dropped without writing anything: the application chose to send nothing
    WriterUnused,
    /// `into_writer()`, then the handler panics before writing anything: the unwritten writer is
    /// dropped while its thread unwinds (real-thread engines only)
    WriterPanic,
}

#[derive(Clone, Debug, PartialEq, Eq, Serialize, Deserialize)]
pub struct Prog {
    pub read: ReadPlan,
    pub finish: Finish,
}

impl Prog {
    pub fn ok() -> Prog {
        Prog { read: ReadPlan::None, finish: Finish::Respond { status: 200, body_len: 3, declared: true, threshold: None } }
    }
    pub fn read_all() -> Prog {
        Prog { read: ReadPlan::ToEof { buf: 4096, extra: 1 }, finish: Finish::Respond { status: 200, body_len: 3, declared: true, threshold: None } }
    }
    pub fn touches_body(&self) -> bool {
        !matches!(self.read, ReadPlan::None)
    }
}

pub fn resp_body(id: u32, len: usize) -> Vec<u8> {
    (0..len).map(|i| b'a' + ((i as u32 + id * 3) % 23) as u8).collect()
}

/// the bytes a `Finish::Writer` program writes
pub fn writer_bytes(id: u32, body_len: usize) -> Vec<u8> {
    let mut v = format!("HTTP/1.1 200 OK\r\nX-Rid: {}\r\nX-Via: writer\r\nContent-Length: {}\r\n\r\n", id, body_len).into_bytes();
    v.extend_from_slice(&resp_body(id, body_len));
    v
}

pub fn upgrade_reply(id: u32, n_read: usize) -> Vec<u8> {
    format!("UP{}:{};", id, n_read).into_bytes()
}

// ------------------------------------------------------------------------------------------
// client scripts

#[derive(Clone, Debug, PartialEq, Eq, Serialize, Deserialize)]
pub enum Step {
    /// send bytes [from, to) of the rendered conversation as one segment
    Send { from: usize, to: usize },
    /// wait until at least `n` final (>= 200) responses have arrived in total
    AwaitFinals(usize),
    /// wait until a message (interim or final) beyond the first `seen` messages has arrived
    AwaitMsgs(usize),
    /// close the sending direction
    HalfClose,
    /// wait for the server to end the stream *without* closing our sending direction
    AwaitEof,
    /// close both directions at once (orderly close of the socket)
    Close,
    /// abort the connection (RST on TCP)
    Reset,
}

#[derive(Clone, Copy, Debug, PartialEq, Eq, Serialize, Deserialize)]
pub enum Transport {
    Tcp,
    Unix,
    Mem,
}

#[derive(Clone, Debug, PartialEq, Eq, Serialize, Deserialize)]
pub struct ConvCase {
    pub conv: Conversation,
    /// program for request index i: progs[i % len]
    pub progs: Vec<Prog>,
    pub script: Vec<Step>,
    pub transport: Transport,
}

impl ConvCase {
    pub fn prog(&self, idx: usize) -> &Prog {
        &self.progs[idx % self.progs.len()]
    }
}

/// script: everything in one segment, half-close, read to the end
pub fn script_all_then_halfclose(total: usize) -> Vec<Step> {
    vec![Step::Send { from: 0, to: total }, Step::HalfClose]
}

// ------------------------------------------------------------------------------------------
// observations

#[derive(Clone, Debug, Serialize, Deserialize)]
pub struct ReadObs {
    pub buf: usize,
    pub res: Result<usize, String>,
}

#[derive(Clone, Debug, Default, Serialize, Deserialize)]
pub struct Delivered {
    pub url: String,
    pub id: Option<u32>,
    pub method: String,
    pub version: (u8, u8),
    pub headers: Vec<(String, String)>,
    pub remote_addr: Option<String>,
    pub body_length: Option<usize>,
    pub reads: Vec<ReadObs>,
    pub body: Vec<u8>,
    pub finish: String,
    pub respond_err: Option<String>,
    /// client bytes already on the client's side when the request was delivered
    pub client_len_at_delivery: usize,
    /// the body was consumed to its end through an entry point that does not hand the bytes back
    /// (read_to_string on non-UTF-8 data): nothing can be said about its content
    #[serde(default)]
    pub opaque_read: bool,
    /// the same head through the other public views: `m=<Display of the method>`, `v=<Display of
    /// the version>`, `h=<Display of header k>` (one per header, in order), `d=<Debug of the
    /// request>`, `e=<header k's name is equiv() to its own upper- and lower-case spelling and to
    /// nothing else>`
    #[serde(default)]
    pub views: Vec<String>,
}

#[derive(Clone, Debug, Default)]
pub struct Observation {
    pub delivered: Vec<Delivered>,
    pub client: Vec<u8>,
    pub client_eof: bool,
    /// read error on the client side (reset …)
    pub client_err: Option<String>,
    /// the client's local socket address as text (TCP) for the peer-address clause
    pub client_addr: Option<String>,
    /// exact stall (mem engine): the server waits for input the scripted client will only send
    /// after output the server has not produced
    pub stall: Option<String>,
    /// watchdog expiry in an engine that cannot prove a hang
    pub timeout: Option<String>,
    pub panics: Vec<PanicRec>,
    /// number of bytes of the request stream the client had sent when each response *message*
    /// became complete on the client side (C18 ordering)
    pub sent_when_msg: Vec<usize>,
    /// mem engine: the connection iterator ended and the write side was shut down
    pub server_closed_write: Option<bool>,
    /// mem engine: the input the server has consumed
    pub server_consumed: Option<usize>,
    /// engine could not complete the script (e.g. the peer closed while we were sending)
    pub script_incomplete: Option<String>,
    /// deliveries are known to be complete (engine saw the connection end)
    pub exact_end: bool,
}

// ------------------------------------------------------------------------------------------
// reference model

#[derive(Clone, Debug, PartialEq, Eq, Serialize, Deserialize)]
pub enum Outcome {
    Deliver,
    /// automatic response with this status, never delivered
    Auto(u16),
    /// connection closed without a response
    SilentClose,
}

#[derive(Clone, Debug, PartialEq, Eq)]
pub struct ReqModel {
    pub outcome: Outcome,
    pub ends_connection: bool,
}

/// Tokens of the request's Connection header.  When the header is repeated the first line is the
/// one that counts: the statements speak of "the Connection header", the tree reads the first one
/// (in both places that look at it), and the generators only ever repeat it to make sure that
/// both places agree.
pub fn connection_tokens(rq: &ReqSpec) -> Vec<String> {
    rq.headers
        .iter()
        .filter(|h| h.name.eq_ignore_ascii_case("connection"))
        .take(1)
        .flat_map(|h| h.value.split(','))
        .map(|t| t.trim().to_ascii_lowercase())
        .filter(|t| !t.is_empty())
        .collect()
}

pub fn classify(rq: &ReqSpec) -> ReqModel {
    match &rq.mal {
        None => {
            let toks = connection_tokens(rq);
            let has = |t: &str| toks.iter().any(|x| x == t);
            let ends = match rq.version.as_str() {
                "HTTP/1.0" => has("close") || has("upgrade") || !has("keep-alive"),
                _ => has("close") || has("upgrade"),
            };
            ReqModel { outcome: Outcome::Deliver, ends_connection: ends }
        }
        Some(m) => match m {
            Malform::ReqLineFields(_) | Malform::HeaderNoColon { .. } => ReqModel { outcome: Outcome::Auto(400), ends_connection: true },
            Malform::VersionToken(v) => {
                if v == "HTTP/2.0" || v == "HTTP/3.0" {
                    ReqModel { outcome: Outcome::Auto(505), ends_connection: false }
                } else {
                    ReqModel { outcome: Outcome::Auto(400), ends_connection: true }
                }
            }
            Malform::NonAscii { .. } => ReqModel { outcome: Outcome::SilentClose, ends_connection: true },
            Malform::Expect(_) => ReqModel { outcome: Outcome::Auto(417), ends_connection: true },
            Malform::WsBeforeName { .. } | Malform::WsInName { .. } | Malform::WsBeforeColon { .. } | Malform::BadContentLength { .. } | Malform::ContentLengthLinesDisagree { .. } => {
                ReqModel { outcome: Outcome::Auto(400), ends_connection: true }
            }
        },
    }
}

#[derive(Clone, Debug)]
pub struct ExpMsg {
    pub req_idx: usize,
    pub status: u16,
    pub head: bool,
    /// Some(id) when the response must carry `X-Rid: id`
    pub rid: Option<u32>,
    /// expected body (None = not checked)
    pub body: Option<Vec<u8>>,
    /// raw bytes following the message (upgrade reply)
    pub raw_after: Option<Vec<u8>>,
    pub interim_before: bool,
}

#[derive(Clone, Debug)]
pub struct Expected {
    pub models: Vec<ReqModel>,
    /// indices of requests handed to the application, in order
    pub delivered: Vec<usize>,
    /// final responses the client must see, in order
    pub msgs: Vec<ExpMsg>,
    /// Some(i): the connection ends after request i (server closes once everything is answered)
    pub ends_after: Option<usize>,
}

fn status_has_body(status: u16) -> bool {
    !((100..200).contains(&status) || status == 204 || status == 304)
}

/// `n_reqs`: how many requests of the conversation the client sends completely (the rest is
/// not modelled here).
pub fn expect(case: &ConvCase) -> Expected {
    let mut models = vec![];
    let mut delivered = vec![];
    let mut msgs = vec![];
    let mut ends_after = None;
    for (i, rq) in case.conv.reqs.iter().enumerate() {
        let m = classify(rq);
        match &m.outcome {
            Outcome::Deliver => {
                delivered.push(i);
                let p = case.prog(i);
                let interim = rq.expects_continue() && p.touches_body();
                let msg = match &p.finish {
                    Finish::Respond { status, body_len, .. } => ExpMsg {
                        req_idx: i,
                        status: *status,
                        head: rq.is_head(),
                        rid: Some(rq.id),
                        body: Some(if rq.is_head() || !status_has_body(*status) { vec![] } else { resp_body(rq.id, *body_len) }),
                        raw_after: None,
                        interim_before: interim,
                    },
                    Finish::RespondFailing { .. } => {
                        // the outcome on the wire is the application's doing; only "not answered
                        // twice" is checked (by its own oracle): the model stops here
                        let ends = true;
                        let _ = ends;
                        models.push(m);
                        ends_after = Some(i);
                        break;
                    }
                    Finish::Writer { body_len, .. } => ExpMsg { req_idx: i, status: 200, head: false, rid: Some(rq.id), body: Some(resp_body(rq.id, *body_len)), raw_after: None, interim_before: interim },
                    Finish::Upgrade { .. } => {
                        let n = rq.body_len();
                        ExpMsg { req_idx: i, status: 101, head: false, rid: None, body: Some(vec![]), raw_after: Some(upgrade_reply(rq.id, n)), interim_before: interim }
                    }
                    Finish::Drop | Finish::Panic => ExpMsg { req_idx: i, status: 500, head: rq.is_head(), rid: None, body: Some(vec![]), raw_after: None, interim_before: interim },
                    Finish::WriterUnused | Finish::WriterPanic => {
                        // nothing is sent for this request
                        let ends = m.ends_connection;
                        models.push(m);
                        if ends {
                            ends_after = Some(i);
                            break;
                        }
                        continue;
                    }
                };
                msgs.push(msg);
            }
            Outcome::Auto(s) => msgs.push(ExpMsg { req_idx: i, status: *s, head: false, rid: None, body: if *s == 505 { None } else { Some(vec![]) }, raw_after: None, interim_before: false }),
            Outcome::SilentClose => {}
        }
        let ends = m.ends_connection;
        models.push(m);
        if ends {
            ends_after = Some(i);
            break;
        }
    }
    Expected { models, delivered, msgs, ends_after }
}

// ------------------------------------------------------------------------------------------
// client stream parsing

#[derive(Clone, Debug)]
pub struct ClientView {
    /// all messages incl. interim ones
    pub msgs: Vec<Msg>,
    /// for each final message: number of interim messages directly before it
    pub finals: Vec<(usize, Msg)>,
    pub raw_tail: Vec<u8>,
    pub error: Option<String>,
}

/// Parses the client's byte stream using the expected HEAD-ness per final response.  Stops at
/// the first error; an upgrade (101) response switches to raw mode.
pub fn client_view(bytes: &[u8], exp: &Expected) -> ClientView {
    let mut msgs = vec![];
    let mut finals = vec![];
    let mut pos = 0;
    let mut interim_run = 0;
    let mut error = None;
    let mut raw_tail = vec![];
    while pos < bytes.len() {
        let k = finals.len();
        let head = exp.msgs.get(k).map(|m| m.head).unwrap_or(false);
        let upgrade_expected = exp.msgs.get(k).map(|m| m.raw_after.is_some()).unwrap_or(false);
        match parse_one(&bytes[pos..], head) {
            Ok(m) => {
                pos += m.consumed;
                if m.framing == BodyFraming::UntilClose {
                    error = Some(format!("response {} is delimited by connection close only", k));
                    msgs.push(m.clone());
                    finals.push((interim_run, m));
                    break;
                }
                if m.status == 101 && upgrade_expected {
                    msgs.push(m.clone());
                    finals.push((interim_run, m));
                    raw_tail = bytes[pos..].to_vec();
                    pos = bytes.len();
                    break;
                }
                if m.status < 200 {
                    interim_run += 1;
                    msgs.push(m);
                } else {
                    msgs.push(m.clone());
                    finals.push((interim_run, m));
                    interim_run = 0;
                }
            }
            Err(ParseErr::Incomplete) => {
                error = Some(format!("stream ends inside message {} ({} unparsed bytes: {:?})", msgs.len(), bytes.len() - pos, crate::resp::head_preview(&bytes[pos..])));
                break;
            }
            Err(ParseErr::Malformed(s)) => {
                error = Some(format!("message {} malformed: {} ({:?})", msgs.len(), s, crate::resp::head_preview(&bytes[pos..])));
                break;
            }
        }
    }
    let _ = pos;
    ClientView { msgs, finals, raw_tail, error }
}

// ------------------------------------------------------------------------------------------
// oracle components.  Each returns Err((kind, detail)); the caller prefixes the property id.

pub type Comp = Result<(), (String, String)>;

fn err<T>(kind: impl Into<String>, detail: impl Into<String>) -> Result<T, (String, String)> {
    Err((kind.into(), detail.into()))
}

/// panics inside the library (any thread) while the case ran
pub fn comp_no_panics(obs: &Observation) -> Comp {
    if let Some(p) = obs.panics.first() {
        return err(format!("panic/{}", crate::panics::signature_of(p)), format!("thread {:?} panicked: {} at {}", p.thread, p.message, p.location));
    }
    Ok(())
}

/// the ids handed to the application are exactly the expected ones, in order, each once
pub fn comp_delivery_sequence(case: &ConvCase, exp: &Expected, obs: &Observation) -> Comp {
    let got: Vec<Option<u32>> = obs.delivered.iter().map(|d| d.id).collect();
    let want: Vec<Option<u32>> = exp.delivered.iter().map(|&i| Some(case.conv.reqs[i].id)).collect();
    if got == want {
        return Ok(());
    }
    // classify
    for (k, d) in obs.delivered.iter().enumerate() {
        match d.id {
            None => {
                return err(
                    "delivery/not-a-sent-request",
                    format!("delivery #{} is no request the client sent: {} {:?} (expected ids {:?})", k, d.method, d.url, want),
                )
            }
            Some(id) => {
                if let Some(idx) = case.conv.reqs.iter().position(|r| r.id == id) {
                    if !exp.delivered.contains(&idx) {
                        let why = match exp.models.get(idx).map(|m| &m.outcome) {
                            Some(Outcome::Auto(s)) => format!("must-be-rejected-{}", s),
                            Some(Outcome::SilentClose) => "must-be-closed-silently".to_string(),
                            None => "after-connection-end".to_string(),
                            Some(Outcome::Deliver) => "unexpected".to_string(),
                        };
                        return err(format!("delivery/{}", why), format!("request id {} (index {}) was handed to the application; expected ids {:?}, got {:?}", id, idx, want, got));
                    }
                }
            }
        }
    }
    let mut seen = std::collections::HashSet::new();
    for g in &got {
        if !seen.insert(*g) {
            return err("delivery/duplicate", format!("id {:?} delivered twice: {:?}", g, got));
        }
    }
    if got.len() < want.len() && want.starts_with(&got) {
        return err("delivery/missing", format!("expected ids {:?}, got only {:?}", want, got));
    }
    err("delivery/order-or-set", format!("expected ids {:?}, got {:?}", want, got))
}

/// head fidelity of every delivered request (C02)
pub fn comp_heads(case: &ConvCase, obs: &Observation, nonce: &str) -> Comp {
    for d in &obs.delivered {
        let Some(id) = d.id else { continue };
        let Some(rq) = case.conv.reqs.iter().find(|r| r.id == id) else { continue };
        if d.method != rq.method {
            return err("head/method", format!("sent {:?} delivered {:?}", rq.method, d.method));
        }
        let target = rq.target().replace(std::str::from_utf8(crate::wire::NONCE_PLACEHOLDER).unwrap(), nonce);
        if d.url != target {
            return err("head/target", format!("sent {:?} delivered {:?}", target, d.url));
        }
        if Some(d.version) != rq.version_tuple() {
            return err("head/version", format!("sent {:?} delivered {:?}", rq.version, d.version));
        }
        if d.headers.len() != rq.headers.len() {
            return err("head/header-count", format!("sent {} headers, delivered {}: {:?} vs {:?}", rq.headers.len(), d.headers.len(), rq.headers, d.headers));
        }
        for (k, (h, (n, v))) in rq.headers.iter().zip(d.headers.iter()).enumerate() {
            if !h.name.eq_ignore_ascii_case(n) {
                return err("head/header-name", format!("header {}: sent {:?} delivered {:?}", k, h.name, n));
            }
            if &h.value != v {
                return err("head/header-value", format!("header {} ({}): sent {:?} delivered {:?}", k, h.name, h.value, v));
            }
        }
        // the other public views of the same head agree with it
        if !d.views.is_empty() {
            let mut want = vec![format!("m={}", rq.method), format!("v={}.{}", d.version.0, d.version.1)];
            for h in &rq.headers {
                // (the name in the spelling that was delivered; equality of names is case-insensitive)
                want.push(format!("h={}: {}", h.name, h.value));
            }
            let got: Vec<&String> = d.views.iter().filter(|v| !v.starts_with("d=") && !v.starts_with("e=")).collect();
            if got.len() != want.len() || got.iter().zip(want.iter()).any(|(g, w)| if g.starts_with("h=") { !g.eq_ignore_ascii_case(w) || g.split_once(": ").map(|x| x.1) != w.split_once(": ").map(|x| x.1) } else { *g != w }) {
                return err("head/display-views", format!("Display of method / version / headers gives {:?}, expected {:?}", got, want));
            }
            if let Some(dbg) = d.views.iter().find(|v| v.starts_with("d=")) {
                if !dbg.contains(&rq.method) || !dbg.contains(&target) {
                    return err("head/debug-view", format!("{:?} does not name method {:?} and target {:?}", dbg, rq.method, target));
                }
            }
            if let Some(e) = d.views.iter().find(|v| v.starts_with("e=") && v.as_str() != "e=ok") {
                return err("head/name-comparison", format!("header-name comparison is not exactly case-insensitive equality: {}", e));
            }
        }
        match case.transport {
            Transport::Tcp => {
                if d.remote_addr.is_none() || d.remote_addr != obs.client_addr {
                    return err("head/remote-addr-tcp", format!("client socket {:?}, remote_addr() {:?}", obs.client_addr, d.remote_addr));
                }
            }
            Transport::Unix | Transport::Mem => {
                if d.remote_addr.is_some() {
                    return err("head/remote-addr-unix", format!("remote_addr() {:?} on a non-TCP transport", d.remote_addr));
                }
            }
        }
    }
    Ok(())
}

/// body semantics of every delivered request (C03): bytes read are a prefix of / equal to the
/// designated body, reads respect the buffer size, end-of-stream is sticky, body_length()
pub fn comp_bodies(case: &ConvCase, obs: &Observation) -> Comp {
    for d in &obs.delivered {
        let Some(id) = d.id else { continue };
        let Some((idx, rq)) = case.conv.reqs.iter().enumerate().find(|(_, r)| r.id == id) else { continue };
        let want = rq.body();
        let prog = case.prog(idx);
        if d.opaque_read {
            continue;
        }
        // every read within its buffer
        let mut eof_seen = false;
        let mut total = 0usize;
        for (k, r) in d.reads.iter().enumerate() {
            match &r.res {
                Ok(n) => {
                    if *n > r.buf {
                        return err("body/read-exceeds-buffer", format!("read #{} returned {} for a {}-byte buffer", k, n, r.buf));
                    }
                    if eof_seen && *n != 0 {
                        return err("body/bytes-after-eof", format!("request {}: read #{} returned {} bytes after end-of-stream had been reported", id, k, n));
                    }
                    if *n == 0 && r.buf > 0 {
                        eof_seen = true;
                    }
                    total += n;
                }
                Err(e) => {
                    return err("body/read-error", format!("request {}: read #{} failed: {}", id, k, e));
                }
            }
        }
        if total != d.body.len() {
            return err("body/harness", "internal: read total differs from collected body");
        }
        if d.body.len() > want.len() || d.body[..] != want[..d.body.len()] {
            let at = d.body.iter().zip(want.iter()).position(|(a, b)| a != b).unwrap_or(want.len().min(d.body.len()));
            let kind = if d.body.len() > want.len() && d.body[..want.len()] == want[..] { "body/reads-past-boundary" } else { "body/bytes-differ" };
            return err(kind, format!("request {} ({:?}): got {} bytes, designated {}; first difference at offset {}", id, framing_name(&rq.framing), d.body.len(), want.len(), at));
        }
        if eof_seen && d.body.len() != want.len() {
            return err("body/early-eof", format!("request {} ({:?}): end-of-stream after {} of {} bytes", id, framing_name(&rq.framing), d.body.len(), want.len()));
        }
        if let ReadPlan::ToEof { .. } | ReadPlan::Std { .. } = prog.read {
            if !eof_seen && !d.reads.iter().any(|r| r.res.is_err()) {
                return err("body/no-eof", format!("request {}: reading to the end did not end", id));
            }
        }
        // declared length
        match &rq.framing {
            Framing::Length { n } => {
                if d.body_length != Some(*n) {
                    return err("body/body_length", format!("request {}: Content-Length {} but body_length() = {:?}", id, n, d.body_length));
                }
            }
            Framing::None | Framing::Upgrade { .. } => {
                if d.body_length.is_some() && rq.header("Content-Length").is_none() {
                    return err("body/body_length", format!("request {}: no Content-Length but body_length() = {:?}", id, d.body_length));
                }
            }
            Framing::Chunked { .. } => {}
        }
    }
    Ok(())
}

pub fn framing_name(f: &Framing) -> &'static str {
    match f {
        Framing::None => "none",
        Framing::Length { .. } => "content-length",
        Framing::Chunked { .. } => "chunked",
        Framing::Upgrade { .. } => "upgrade",
    }
}

/// the client sees exactly the expected final responses, in order (status, X-Rid, body,
/// interim responses), and — when `check_eof` — the stream ends exactly when the model says
pub fn comp_client_stream(exp: &Expected, obs: &Observation, view: &ClientView, n_expected: usize, check_interim: bool) -> Comp {
    if let Some(e) = &view.error {
        return err("client/stream-malformed", e.clone());
    }
    let want = &exp.msgs[..n_expected.min(exp.msgs.len())];
    for (k, w) in want.iter().enumerate() {
        let Some((n_interim, m)) = view.finals.get(k) else {
            return err(
                format!("client/response-missing/{}", w.status),
                format!("expected {} final responses, got {} (statuses {:?}); eof={}", want.len(), view.finals.len(), view.finals.iter().map(|f| f.1.status).collect::<Vec<_>>(), obs.client_eof),
            );
        };
        if m.status != w.status {
            return err(format!("client/status/{}-instead-of-{}", m.status, w.status), format!("response #{}: expected {}, got {} (all statuses {:?})", k, w.status, m.status, view.finals.iter().map(|f| f.1.status).collect::<Vec<_>>()));
        }
        if let Some(rid) = w.rid {
            let got = m.header("X-Rid").map(|s| s.to_string());
            if got != Some(rid.to_string()) {
                return err("client/response-for-wrong-request", format!("response #{} should answer request id {}, carries X-Rid {:?}", k, rid, got));
            }
        }
        if let Some(b) = &w.body {
            if &m.body != b {
                return err("client/response-body", format!("response #{} (status {}): body {} bytes, expected {}", k, m.status, m.body.len(), b.len()));
            }
        }
        if check_interim {
            let want_interim = if w.interim_before { 1 } else { 0 };
            if *n_interim != want_interim {
                return err(format!("client/interim-count/{}-instead-of-{}", n_interim, want_interim), format!("response #{}: {} interim responses before it, expected {}", k, n_interim, want_interim));
            }
        }
        if let Some(raw) = &w.raw_after {
            if &view.raw_tail != raw {
                return err("client/upgrade-stream", format!("after the 101: {:?}, expected {:?}", String::from_utf8_lossy(&view.raw_tail), String::from_utf8_lossy(raw)));
            }
        }
    }
    if view.finals.len() > want.len() {
        let extra = &view.finals[want.len()].1;
        return err(format!("client/extra-response/{}", extra.status), format!("{} final responses, expected {}: statuses {:?}", view.finals.len(), want.len(), view.finals.iter().map(|f| f.1.status).collect::<Vec<_>>()));
    }
    Ok(())
}

/// every `respond` returned Ok
pub fn comp_respond_ok(obs: &Observation) -> Comp {
    for d in &obs.delivered {
        if let Some(e) = &d.respond_err {
            return err("respond-returned-error", format!("request {:?}: respond() = Err({})", d.id, e));
        }
    }
    Ok(())
}

pub fn prefix(prop: &str, c: Comp) -> Result<(), crate::runner::Verdict> {
    c.map_err(|(k, d)| crate::runner::fail(format!("{}/{}", prop, k), d))
}

/// common pre-check: engine trouble is inconclusive, never a violation
pub fn engine_trouble(obs: &Observation) -> Option<crate::runner::Verdict> {
    if let Some(t) = &obs.timeout {
        return Some(crate::runner::Verdict::Inconclusive(format!("watchdog: {}", t)));
    }
    None
}
