//! Independent HTTP/1.x *response* parser, written from RFC 7230 section 3 only.  It never looks
//! at tiny-http or chunked_transfer code; it is the client-side oracle of most checks.

use serde::{Deserialize, Serialize};

#[derive(Clone, Debug, PartialEq, Eq, Serialize, Deserialize)]
pub enum BodyFraming {
    /// no body by rule (HEAD request, 1xx, 204, 304)
    NoneByRule,
    Chunked,
    Length(usize),
    /// neither Transfer-Encoding nor Content-Length: delimited by connection close
    UntilClose,
}

#[derive(Clone, Debug, PartialEq, Eq)]
pub struct Msg {
    pub version: (u8, u8),
    pub status: u16,
    pub reason: String,
    pub headers: Vec<(String, String)>,
    pub body: Vec<u8>,
    pub framing: BodyFraming,
    /// bytes of the input this message occupies
    pub consumed: usize,
    /// number of chunks (for the histogram), 0 unless chunked
    pub chunks: usize,
    /// length of the header block including the final CRLF CRLF
    pub head_len: usize,
}

impl Msg {
    pub fn header(&self, name: &str) -> Option<&str> {
        self.headers.iter().find(|(n, _)| n.eq_ignore_ascii_case(name)).map(|(_, v)| v.as_str())
    }
    pub fn header_count(&self, name: &str) -> usize {
        self.headers.iter().filter(|(n, _)| n.eq_ignore_ascii_case(name)).count()
    }
}

#[derive(Clone, Debug, PartialEq, Eq)]
pub enum ParseErr {
    /// the bytes so far are a proper prefix of a message
    Incomplete,
    Malformed(String),
}

fn is_tchar(b: u8) -> bool {
    matches!(b, b'!' | b'#' | b'$' | b'%' | b'&' | b'\'' | b'*' | b'+' | b'-' | b'.' | b'^' | b'_' | b'`' | b'|' | b'~')
        || b.is_ascii_alphanumeric()
}

fn find_crlf(buf: &[u8], from: usize) -> Option<usize> {
    if buf.len() < 2 {
        return None;
    }
    let mut i = from;
    while i + 1 < buf.len() {
        if buf[i] == b'\r' && buf[i + 1] == b'\n' {
            return Some(i);
        }
        i += 1;
    }
    None
}

fn mal<T>(s: impl Into<String>) -> Result<T, ParseErr> {
    Err(ParseErr::Malformed(s.into()))
}

/// Parses one response message from the front of `buf`.  `head_request`: the message answers a
/// HEAD request.  For `UntilClose` framing the body is everything that remains (the caller
/// decides whether that is acceptable).
pub fn parse_one(buf: &[u8], head_request: bool) -> Result<Msg, ParseErr> {
    // status-line = HTTP-version SP status-code SP reason-phrase CRLF
    let Some(eol) = find_crlf(buf, 0) else {
        // a bare LF or a control byte in what we have so far can already be rejected
        if buf.iter().any(|&b| b == b'\n') {
            return mal("bare LF in status line");
        }
        return Err(ParseErr::Incomplete);
    };
    let line = &buf[..eol];
    if line.len() < 12 {
        return mal(format!("status line too short: {:?}", String::from_utf8_lossy(line)));
    }
    if &line[..5] != b"HTTP/" || !line[5].is_ascii_digit() || line[6] != b'.' || !line[7].is_ascii_digit() || line[8] != b' ' {
        return mal(format!("bad HTTP-version in status line: {:?}", String::from_utf8_lossy(line)));
    }
    let version = (line[5] - b'0', line[7] - b'0');
    if !(line[9].is_ascii_digit() && line[10].is_ascii_digit() && line[11].is_ascii_digit()) {
        return mal(format!("status code is not 3DIGIT: {:?}", String::from_utf8_lossy(line)));
    }
    let status = (line[9] - b'0') as u16 * 100 + (line[10] - b'0') as u16 * 10 + (line[11] - b'0') as u16;
    if line.len() < 13 || line[12] != b' ' {
        return mal(format!("no SP after status code: {:?}", String::from_utf8_lossy(line)));
    }
    let reason_b = &line[13..];
    for &b in reason_b {
        if !(b == b'\t' || b == b' ' || (0x21..=0x7e).contains(&b) || b >= 0x80) {
            return mal("control byte in reason phrase");
        }
    }
    let reason = String::from_utf8_lossy(reason_b).to_string();
    // header fields
    let mut headers: Vec<(String, String)> = vec![];
    let mut pos = eol + 2;
    loop {
        let Some(e) = find_crlf(buf, pos) else {
            if buf[pos..].iter().any(|&b| b == b'\n') {
                // could still be the LF of a CRLF split… no: find_crlf would have found it,
                // unless the LF is not preceded by CR
                let idx = pos + buf[pos..].iter().position(|&b| b == b'\n').unwrap();
                if idx == 0 || buf[idx - 1] != b'\r' {
                    return mal("bare LF in header block");
                }
            }
            return Err(ParseErr::Incomplete);
        };
        let l = &buf[pos..e];
        pos = e + 2;
        if l.is_empty() {
            break;
        }
        if l[0] == b' ' || l[0] == b'\t' {
            return mal("header line starts with whitespace (obs-fold)");
        }
        let Some(colon) = l.iter().position(|&b| b == b':') else {
            return mal(format!("header line without colon: {:?}", String::from_utf8_lossy(l)));
        };
        let name = &l[..colon];
        if name.is_empty() || !name.iter().all(|&b| is_tchar(b)) {
            return mal(format!("header name is not a token: {:?}", String::from_utf8_lossy(name)));
        }
        let mut v = &l[colon + 1..];
        while let [b' ' | b'\t', rest @ ..] = v {
            v = rest;
        }
        while let [rest @ .., b' ' | b'\t'] = v {
            v = rest;
        }
        for &b in v {
            if !(b == b'\t' || b == b' ' || (0x21..=0x7e).contains(&b) || b >= 0x80) {
                return mal(format!("control byte in header value of {:?}", String::from_utf8_lossy(name)));
            }
        }
        headers.push((String::from_utf8_lossy(name).to_string(), String::from_utf8_lossy(v).to_string()));
    }
    let head_len = pos;
    let mut msg = Msg { version, status, reason, headers, body: vec![], framing: BodyFraming::NoneByRule, consumed: pos, chunks: 0, head_len };
    // RFC 7230 3.3.3
    if head_request || (100..200).contains(&status) || status == 204 || status == 304 {
        return Ok(msg);
    }
    let te: Vec<&str> = msg
        .headers
        .iter()
        .filter(|(n, _)| n.eq_ignore_ascii_case("Transfer-Encoding"))
        .flat_map(|(_, v)| v.split(','))
        .map(|s| s.trim())
        .filter(|s| !s.is_empty())
        .collect();
    if !te.is_empty() {
        if te.last().unwrap().eq_ignore_ascii_case("chunked") {
            if te.len() != 1 {
                return mal(format!("unexpected transfer codings {:?}", te));
            }
            let (body, used, chunks) = parse_chunked(&buf[pos..])?;
            msg.body = body;
            msg.chunks = chunks;
            msg.consumed = pos + used;
            msg.framing = BodyFraming::Chunked;
            return Ok(msg);
        } else {
            msg.framing = BodyFraming::UntilClose;
            msg.body = buf[pos..].to_vec();
            msg.consumed = buf.len();
            return Ok(msg);
        }
    }
    let cls: Vec<String> = msg.headers.iter().filter(|(n, _)| n.eq_ignore_ascii_case("Content-Length")).map(|(_, v)| v.clone()).collect();
    if !cls.is_empty() {
        let first = &cls[0];
        if cls.iter().any(|c| c != first) {
            return mal("differing Content-Length fields");
        }
        if first.is_empty() || !first.bytes().all(|b| b.is_ascii_digit()) {
            return mal(format!("invalid Content-Length {:?}", first));
        }
        let Ok(n) = first.parse::<usize>() else { return mal("Content-Length overflow") };
        if buf.len() - pos < n {
            return Err(ParseErr::Incomplete);
        }
        msg.body = buf[pos..pos + n].to_vec();
        msg.consumed = pos + n;
        msg.framing = BodyFraming::Length(n);
        return Ok(msg);
    }
    msg.framing = BodyFraming::UntilClose;
    msg.body = buf[pos..].to_vec();
    msg.consumed = buf.len();
    Ok(msg)
}

/// Strict chunked-body grammar (RFC 7230 4.1).  Returns (payload, bytes used, number of chunks).
pub fn parse_chunked(buf: &[u8]) -> Result<(Vec<u8>, usize, usize), ParseErr> {
    let mut pos = 0;
    let mut out = vec![];
    let mut chunks = 0;
    loop {
        let Some(e) = find_crlf(buf, pos) else {
            // validate what we have
            for &b in &buf[pos..] {
                if b == b'\n' {
                    return mal("bare LF in chunk-size line");
                }
            }
            return Err(ParseErr::Incomplete);
        };
        let line = &buf[pos..e];
        let size_end = line.iter().position(|&b| b == b';').unwrap_or(line.len());
        let size_b = &line[..size_end];
        if size_b.is_empty() || !size_b.iter().all(|b| b.is_ascii_hexdigit()) {
            return mal(format!("chunk size is not 1*HEXDIG: {:?}", String::from_utf8_lossy(line)));
        }
        if size_b.len() > 15 {
            return mal("chunk size too large");
        }
        // chunk-ext: *( ";" token [ "=" ( token / quoted-string ) ] ) — accept visible ASCII
        for &b in &line[size_end..] {
            if !((0x20..=0x7e).contains(&b) || b == b'\t') {
                return mal("bad byte in chunk extension");
            }
        }
        let size = usize::from_str_radix(std::str::from_utf8(size_b).unwrap(), 16).unwrap();
        pos = e + 2;
        if size == 0 {
            // trailer-part then CRLF
            loop {
                let Some(e) = find_crlf(buf, pos) else { return Err(ParseErr::Incomplete) };
                let l = &buf[pos..e];
                pos = e + 2;
                if l.is_empty() {
                    return Ok((out, pos, chunks));
                }
                let Some(colon) = l.iter().position(|&b| b == b':') else { return mal("trailer line without colon") };
                if colon == 0 || !l[..colon].iter().all(|&b| is_tchar(b)) {
                    return mal("trailer name is not a token");
                }
            }
        }
        if buf.len() < pos + size + 2 {
            // check what is there of the terminating CRLF
            if buf.len() > pos + size && buf[pos + size] != b'\r' {
                return mal("chunk data not followed by CRLF");
            }
            return Err(ParseErr::Incomplete);
        }
        out.extend_from_slice(&buf[pos..pos + size]);
        if &buf[pos + size..pos + size + 2] != b"\r\n" {
            return mal("chunk data not followed by CRLF");
        }
        pos += size + 2;
        chunks += 1;
    }
}

/// Parses a whole client-side byte stream into messages.  `heads[i]` tells whether the i-th
/// *final* response answers a HEAD request (interim 1xx responses do not advance the index).
/// Returns the messages and the unparsed remainder state.
pub struct StreamParse {
    pub msgs: Vec<Msg>,
    pub rest: usize,
    pub error: Option<ParseErr>,
}

pub fn parse_stream(buf: &[u8], heads: &dyn Fn(usize) -> bool) -> StreamParse {
    let mut msgs = vec![];
    let mut pos = 0;
    let mut finals = 0;
    while pos < buf.len() {
        match parse_one(&buf[pos..], heads(finals)) {
            Ok(m) => {
                pos += m.consumed;
                if m.status >= 200 {
                    finals += 1;
                }
                msgs.push(m);
            }
            Err(e) => return StreamParse { msgs, rest: pos, error: Some(e) },
        }
    }
    StreamParse { msgs, rest: pos, error: None }
}

/// A tiny encoder used only to property-test the parser itself (round trip).
pub fn encode_for_selftest(status: u16, headers: &[(String, String)], body: &[u8], chunk_sizes: Option<&[usize]>) -> Vec<u8> {
    let mut out = format!("HTTP/1.1 {:03} Reason Phrase\r\n", status).into_bytes();
    for (n, v) in headers {
        out.extend_from_slice(format!("{}: {}\r\n", n, v).as_bytes());
    }
    match chunk_sizes {
        Some(sizes) => {
            out.extend_from_slice(b"Transfer-Encoding: chunked\r\n\r\n");
            let mut off = 0;
            let mut i = 0;
            while off < body.len() {
                let want = sizes.get(i).copied().unwrap_or(usize::MAX).max(1);
                let n = want.min(body.len() - off);
                out.extend_from_slice(format!("{:X}\r\n", n).as_bytes());
                out.extend_from_slice(&body[off..off + n]);
                out.extend_from_slice(b"\r\n");
                off += n;
                i += 1;
            }
            out.extend_from_slice(b"0\r\n\r\n");
        }
        None => {
            out.extend_from_slice(format!("Content-Length: {}\r\n\r\n", body.len()).as_bytes());
            out.extend_from_slice(body);
        }
    }
    out
}

#[cfg(test)]
mod tests {
    use super::*;
    use proptest::prelude::*;

    proptest! {
        #![proptest_config(ProptestConfig { cases: 3000, failure_persistence: None, ..ProptestConfig::default() })]
        #[test]
        fn roundtrip(status in 200u16..600, body in proptest::collection::vec(any::<u8>(), 0..3000),
                     chunked in any::<bool>(), sizes in proptest::collection::vec(1usize..2000, 0..6),
                     hv in "[!-~]([ -~]{0,20}[!-~])?", tail in proptest::collection::vec(any::<u8>(), 0..20)) {
            prop_assume!(status != 204 && status != 304);
            let hs = vec![("X-A".to_string(), hv.clone())];
            let mut wire = encode_for_selftest(status, &hs, &body, if chunked { Some(&sizes) } else { None });
            let n = wire.len();
            wire.extend_from_slice(&tail);
            let m = parse_one(&wire, false).unwrap();
            prop_assert_eq!(m.consumed, n);
            prop_assert_eq!(m.status, status);
            prop_assert_eq!(&m.body, &body);
            prop_assert_eq!(m.header("x-a"), Some(hv.as_str()));
            // every proper prefix is Incomplete, never a different message
            for cut in [n / 3, n / 2, n.saturating_sub(1)] {
                if cut < n {
                    prop_assert_eq!(parse_one(&wire[..cut], false), Err(ParseErr::Incomplete));
                }
            }
        }
    }

    #[test]
    fn rejects() {
        assert!(matches!(parse_one(b"HTTP/1.1 20 OK\r\n\r\n", false), Err(ParseErr::Malformed(_))));
        assert!(matches!(parse_one(b"HTTP/1.1 200 OK\r\n X: y\r\n\r\n", false), Err(ParseErr::Malformed(_))));
        assert!(matches!(parse_one(b"HTTP/1.1 200 OK\r\nX y\r\n\r\n", false), Err(ParseErr::Malformed(_))));
        assert!(matches!(parse_one(b"HTTP/1.1 200 OK\r\nTransfer-Encoding: chunked\r\n\r\nzz\r\n", false), Err(ParseErr::Malformed(_))));
        assert!(matches!(parse_one(b"HTTP/1.1 200 OK\r\nTransfer-Encoding: chunked\r\n\r\n1\r\nabc", false), Err(ParseErr::Malformed(_))));
        let m = parse_one(b"HTTP/1.1 200 OK\r\n\r\nabc", false).unwrap();
        assert_eq!(m.framing, BodyFraming::UntilClose);
        let m = parse_one(b"HTTP/1.1 204 No Content\r\n\r\nabc", false).unwrap();
        assert_eq!(m.consumed, 27);
        let m = parse_one(b"HTTP/1.1 200 OK\r\nContent-Length: 5\r\n\r\n", true).unwrap();
        assert_eq!(m.framing, BodyFraming::NoneByRule);
    }
}
