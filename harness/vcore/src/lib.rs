pub mod cli;
pub mod date;
pub mod panics;
pub mod report;
pub mod resp;
pub mod respparse;
pub mod runner;
pub mod te;
