//! proptest strategies for requests and conversations (DESIGN.md 3.1).  Sound first: only inputs
//! whose outcome the properties define.

use crate::conv::{ConvCase, Finish, Prog, ReadPlan, Step, Transport};
use crate::wire::{render, ChunkSpec, Conversation, Framing, Hdr, ReqSpec};
use proptest::prelude::*;

pub const LEN_BOUNDARY: &[usize] = &[0, 1, 2, 1023, 1024, 1025, 2047, 2048, 2049, 8191, 8192, 8193, 32767, 32768, 32769];

const RESERVED: &[&str] = &["content-length", "transfer-encoding", "expect", "connection", "te", "upgrade"];

pub fn method_strategy() -> BoxedStrategy<String> {
    prop_oneof![
        6 => proptest::sample::select(vec!["GET", "POST", "PUT", "DELETE", "OPTIONS", "PATCH", "TRACE", "CONNECT"]).prop_map(|s| s.to_string()),
        1 => proptest::sample::select(vec!["get", "Post", "M-SEARCH", "PRI", "PROPFIND", "X", "GETT", "HEADX", "a.b", "!#$%&'*+-.^_`|~"]).prop_map(|s| s.to_string()),
        1 => "[A-Za-z0-9!#$%&'*+.^_`|~-]{1,12}".prop_filter("HEAD handled separately", |m| m != "HEAD"),
    ]
    .boxed()
}

pub fn path_strategy() -> BoxedStrategy<String> {
    prop_oneof![
        3 => Just(String::new()),
        4 => "/[!-~]{0,40}",
        1 => "/[!-~]{200,400}",
        1 => "/[!-~]{1000,1400}",
        1 => "\\?[a-z]=[!-~]{0,20}(&[a-z]=%[0-9A-F]{2}){0,3}",
        1 => proptest::sample::select(vec!["/%41%2F..%2f", "/a//b/../c/./", "/*", "/a?b?c#d", "/\\path", "/x;y=z", "/a+b%20c", "/:80"]).prop_map(|s| s.to_string()),
    ]
    .boxed()
}

pub fn ows() -> BoxedStrategy<String> {
    prop_oneof![
        5 => Just(" ".to_string()),
        3 => Just(String::new()),
        1 => Just("  ".to_string()),
        1 => Just("\t".to_string()),
        1 => Just(" \t ".to_string()),
    ]
    .boxed()
}

fn ows_post() -> BoxedStrategy<String> {
    prop_oneof![
        8 => Just(String::new()),
        1 => Just(" ".to_string()),
        1 => Just("\t".to_string()),
        1 => Just("  \t".to_string()),
    ]
    .boxed()
}

pub fn header_name() -> BoxedStrategy<String> {
    prop_oneof![
        4 => proptest::sample::select(vec!["Host", "Accept", "User-Agent", "X-A", "Cookie", "content-type", "ACCEPT-ENCODING", "x-forwarded-for", "If-None-Match", "Cache-Control", "Content-Type", "Range", "Trailer", "Date"]).prop_map(|s| s.to_string()),
        3 => "[A-Za-z][A-Za-z0-9-]{0,20}",
        1 => "[A-Za-z0-9!#$%&'*+.^_`|~-]{1,16}",
    ]
    .prop_filter("framing names are placed by the framing fields only", |n| !RESERVED.contains(&n.to_ascii_lowercase().as_str()))
    .boxed()
}

/// header values: visible ASCII, inner SP / HT / colons allowed, no surrounding whitespace
pub fn header_value() -> BoxedStrategy<String> {
    prop_oneof![
        1 => Just(String::new()),
        5 => "[!-~]{1,16}",
        3 => "[!-~][ -~\t]{0,40}[!-~]",
        1 => "[!-~]{300,600}",
        1 => "[!-~]([ -~]{1000,1200})[!-~]",
        1 => proptest::sample::select(vec!["a:b", "::", "20: 34", "x, y, z", "\"q\\\"uoted\"", "text/html; q=0.9, */*;q=0.1", "a\tb", "=?utf-8?b?=", "0", "close-ish"]).prop_map(|s| s.to_string()),
    ]
    .boxed()
}

pub fn hdr_strategy() -> BoxedStrategy<Hdr> {
    (header_name(), ows(), header_value(), ows_post()).prop_map(|(name, pre, value, post)| Hdr { name, pre, value, post }).boxed()
}

pub fn headers_strategy(max: usize) -> BoxedStrategy<Vec<Hdr>> {
    prop_oneof![
        6 => proptest::collection::vec(hdr_strategy(), 0..=max.min(6)),
        2 => proptest::collection::vec(hdr_strategy(), 0..=max),
        // duplicates: repeat some header
        2 => (proptest::collection::vec(hdr_strategy(), 1..=max.min(5)), any::<u8>(), header_value()).prop_map(|(mut v, k, val)| {
            let i = k as usize % v.len();
            let mut d = v[i].clone();
            if k & 0x80 != 0 {
                d.value = val;
            }
            if k & 0x40 != 0 {
                d.name = d.name.to_ascii_uppercase();
            }
            v.push(d);
            v
        }),
    ]
    .boxed()
}

pub fn len_strategy(max_random: usize) -> BoxedStrategy<usize> {
    prop_oneof![
        5 => proptest::sample::select(LEN_BOUNDARY),
        3 => 0usize..100,
        2 => 0usize..3000,
        1 => 0usize..max_random,
    ]
    .boxed()
}

fn case_variant(s: &str, mask: u32) -> String {
    match mask % 5 {
        0 | 1 => s.to_string(),
        2 => s.to_ascii_lowercase(),
        3 => s.to_ascii_uppercase(),
        _ => s.chars().enumerate().map(|(i, c)| if (mask >> (i % 30 + 2)) & 1 == 1 { c.to_ascii_uppercase() } else { c.to_ascii_lowercase() }).collect(),
    }
}

/// partitions `len` bytes into chunks
pub fn chunks_strategy(len: usize) -> BoxedStrategy<Vec<ChunkSpec>> {
    if len == 0 {
        return Just(vec![]).boxed();
    }
    let sizes: BoxedStrategy<Vec<usize>> = prop_oneof![
        3 => Just(vec![len]),
        2 => proptest::collection::vec(1u32..1000, 2..8).prop_map(move |w| {
            let total: u64 = w.iter().map(|x| *x as u64).sum();
            let mut out = vec![];
            let mut used = 0usize;
            for (i, x) in w.iter().enumerate() {
                let n = if i + 1 == w.len() { len - used } else { ((*x as u64 * len as u64) / total) as usize };
                let n = n.min(len - used);
                if n > 0 {
                    out.push(n);
                    used += n;
                }
            }
            if used < len {
                out.push(len - used);
            }
            out
        }),
        1 => Just(if len <= 300 { vec![1; len] } else { let mut v = vec![1usize; 100]; v.push(len - 100); v }),
        1 => proptest::sample::select(vec![1usize, 2, 15, 16, 255, 256, 1023, 1024, 1025, 4096, 8192]).prop_map(move |c| {
            let mut out = vec![];
            let mut rem = len;
            while rem > 0 && out.len() < 300 {
                let n = c.min(rem);
                out.push(n);
                rem -= n;
            }
            if rem > 0 {
                out.push(rem);
            }
            out
        }),
    ]
    .boxed();
    (sizes, proptest::collection::vec((any::<bool>(), 0u8..4, proptest::option::weighted(0.15, "[a-z]{1,5}(=[a-z0-9]{1,5})?")), 1..4))
        .prop_map(|(sizes, deco)| {
            sizes
                .iter()
                .enumerate()
                .map(|(i, &n)| {
                    let d = &deco[i % deco.len()];
                    ChunkSpec { len: n, upper: d.0, zeros: if d.1 == 3 { 2 } else { 0 }, ext: d.2.clone() }
                })
                .collect()
        })
        .boxed()
}

#[derive(Clone, Debug)]
pub enum FramingKind {
    None,
    Length(usize),
    Chunked(usize),
    /// Content-Length header *and* chunked (chunked takes precedence)
    ChunkedWithLength(usize, usize),
}

/// Builds a valid request.  `extra` headers are random; the framing header(s) are inserted at
/// position `pos`.
pub fn build_req(id: u32, method: String, path: String, version: &str, mut extra: Vec<Hdr>, framing: Framing, also_cl: Option<usize>, pos: usize, mask: u32, connection: Option<String>, expect: bool) -> ReqSpec {
    let mut ins = pos % (extra.len() + 1);
    match &framing {
        Framing::Length { n } => {
            let v = if mask & 0x100 != 0 { format!("{:03}", n) } else { n.to_string() };
            extra.insert(ins, Hdr { name: case_variant("Content-Length", mask), pre: if mask & 0x200 != 0 { String::new() } else { [" ", " ", "\t", " \t"][(mask as usize >> 30) % 4].into() }, value: v, post: ["", "", " ", "\t"][(mask as usize >> 28) % 4].into() });
            ins += 1;
        }
        Framing::Chunked { .. } => {
            if let Some(cl) = also_cl {
                let at = if mask & 0x400 != 0 { ins } else { (ins + 1).min(extra.len()) };
                extra.insert(at.min(extra.len()), Hdr::new("Content-Length", &cl.to_string()));
            }
            let at = ins.min(extra.len());
            extra.insert(at, Hdr { name: case_variant("Transfer-Encoding", mask), pre: [" ", " ", "\t", "", "  "][(mask as usize >> 6) % 5].into(), value: case_variant("chunked", mask >> 3), post: ["", "", "\t", " "][(mask as usize >> 29) % 4].into() });
            ins = at + 1;
        }
        Framing::Upgrade { .. } => {
            extra.insert(ins, Hdr::new("Upgrade", "websocket"));
            ins += 1;
        }
        Framing::None => {}
    }
    if let Some(c) = connection {
        let at = (ins + (mask as usize >> 12)) % (extra.len() + 1);
        extra.insert(at, Hdr { name: case_variant("Connection", mask >> 5), pre: [" ", " ", "\t", "", " \t"][(mask as usize >> 15) % 5].into(), value: c, post: ["", "", "\t", "  "][(mask as usize >> 27) % 4].into() });
        // now and then the header is repeated further down with another value: the first line counts,
        // wherever the library looks
        if (mask >> 21) % 8 == 0 {
            let v = ["upgrade", "close", "keep-alive", "Upgrade, close"][(mask as usize >> 24) % 4];
            let at2 = at + 1 + (mask as usize >> 26) % (extra.len() - at);
            extra.insert(at2, Hdr::new("Connection", v));
        }
    }
    // a TE header now and then: the response coding then follows the request (HTTP/1.1 only matters)
    if (mask >> 13) % 8 == 0 && !extra.iter().any(|h| h.name.eq_ignore_ascii_case("te")) {
        let v = ["chunked", "identity", "trailers", "chunked;q=0.5, identity;q=0.2", "identity;q=0.9, chunked;q=0.1"][(mask as usize >> 17) % 5];
        let at = (mask as usize >> 19) % (extra.len() + 1);
        extra.insert(at, Hdr::new("TE", v));
    }
    if expect {
        let at = (mask as usize >> 16) % (extra.len() + 1);
        // optional whitespace around the value is spaces and tabs, any number of them
        let pre = [" ", " ", "", "\t", "  ", " \t ", "\t\t"][(mask as usize >> 14) % 7];
        let post = ["", "", " ", "\t", " \t"][(mask as usize >> 10) % 5];
        extra.insert(at, Hdr { name: case_variant("Expect", mask >> 7), pre: pre.into(), value: case_variant("100-continue", mask >> 9), post: post.into() });
    }
    // framing follows the headers alone: a body-carrying request may use any method
    let method = if method == "POST" && mask != 0 && (mask >> 22) % 3 == 0 { ["HEAD", "GET", "PUT", "DELETE", "PATCH", "OPTIONS", "TRACE", "FROB", "CONNECT", "head"][(mask as usize >> 25) % 10].to_string() } else { method };
    ReqSpec { id, method, path, target_prefix: String::new(), version: version.to_string(), headers: extra, framing, mal: None, body_override: None }
}

pub fn framing_strategy(max_len: usize) -> BoxedStrategy<(Framing, Option<usize>)> {
    prop_oneof![
        2 => Just((Framing::None, None)),
        4 => len_strategy(max_len).prop_map(|n| (Framing::Length { n }, None)),
        4 => len_strategy(max_len).prop_flat_map(|n| (chunks_strategy(n), 0u8..3, proptest::option::weighted(0.1, "[a-z]{1,4}"))).prop_map(|(chunks, z, e)| (Framing::Chunked { chunks, last_zeros: if z == 2 { 2 } else { 0 }, last_ext: e }, None)),
        1 => (len_strategy(max_len), prop_oneof![Just(0usize), Just(5usize), 0usize..100000])
            .prop_flat_map(|(n, cl)| (chunks_strategy(n), Just(cl)))
            .prop_map(|(chunks, cl)| (Framing::Chunked { chunks, last_zeros: 0, last_ext: None }, Some(cl))),
    ]
    .boxed()
}

/// a plain body-less sentinel request
pub fn sentinel(id: u32) -> ReqSpec {
    let mut r = ReqSpec::simple(id);
    r.path = "/sentinel".into();
    // body-less requests of every kind must frame alike
    r.method = ["GET", "GET", "DELETE", "OPTIONS", "CONNECT", "TRACE", "PURGE", "get"][id as usize % 8].to_string();
    r
}

pub fn version_strategy() -> BoxedStrategy<&'static str> {
    prop_oneof![4 => Just("HTTP/1.1"), 1 => Just("HTTP/1.0")].boxed()
}

pub fn respond_strategy() -> BoxedStrategy<Finish> {
    (proptest::sample::select(vec![200u16, 200, 200, 404, 500, 201, 204, 304]), prop_oneof![3 => 0usize..50, 1 => proptest::sample::select(vec![1023usize, 1024, 1025, 3000, 9000, 40000])], proptest::bool::weighted(0.8), proptest::option::weighted(0.2, prop_oneof![Just(0usize), Just(usize::MAX), Just(10usize)]))
        .prop_map(|(status, body_len, declared, threshold)| Finish::Respond { status, body_len, declared, threshold })
        .boxed()
}

pub fn small_respond() -> BoxedStrategy<Finish> {
    (proptest::sample::select(vec![200u16, 200, 404, 201]), 0usize..40).prop_map(|(status, body_len)| Finish::Respond { status, body_len, declared: true, threshold: None }).boxed()
}

pub fn transport_strategy() -> BoxedStrategy<Transport> {
    prop_oneof![5 => Just(Transport::Unix), 1 => Just(Transport::Tcp)].boxed()
}

/// keep-alive version of a 1.0 request: the generator adds `Connection: keep-alive` so that
/// followers are defined
pub fn keepalive_for(version: &str, last: bool) -> Option<String> {
    if version == "HTTP/1.0" && !last {
        Some("keep-alive".to_string())
    } else {
        None
    }
}

pub fn total_len(conv: &Conversation) -> usize {
    render(conv).bytes.len()
}

pub fn simple_script(conv: &Conversation) -> Vec<Step> {
    vec![Step::Send { from: 0, to: total_len(conv) }, Step::HalfClose]
}

pub fn prog_read_all(buf: usize) -> Prog {
    Prog { read: ReadPlan::ToEof { buf, extra: 1 }, finish: Finish::Respond { status: 200, body_len: 2, declared: true, threshold: None } }
}

// ------------------------------------------------------------------------------------------
// C02: request head fidelity

pub fn c02_strategy(transports: BoxedStrategy<Transport>) -> BoxedStrategy<ConvCase> {
    let req = (method_strategy(), path_strategy(), version_strategy(), headers_strategy(64), any::<u32>(), proptest::bool::weighted(0.08));
    (proptest::collection::vec(req, 1..=4), transports, proptest::bool::weighted(0.3))
        .prop_map(|(reqs, transport, split)| {
            let n = reqs.len();
            let mut conv = Conversation::default();
            for (i, (method, path, version, headers, mask, head)) in reqs.into_iter().enumerate() {
                let last = i + 1 == n;
                let method = if head { "HEAD".to_string() } else { method };
                // (connection options in any letter case, now and then with a further token: the value is
                // delivered as it was sent)
                let conn = keepalive_for(version, last).map(|c| {
                    let c = match (mask >> 2) % 4 {
                        0 => c,
                        1 => c.to_ascii_uppercase(),
                        2 => c.split('-').map(|p| { let mut q = p.to_string(); if let Some(f) = q.get_mut(0..1) { f.make_ascii_uppercase(); } q }).collect::<Vec<_>>().join("-"),
                        _ => format!("{}, X-Hop-Thing", c),
                    };
                    c
                });
                // mostly body-less; sometimes a (small) body so that the framing headers are part of
                // the delivered list too, incl. Content-Length next to Transfer-Encoding
                let (framing, also_cl) = match (mask >> 20) % 12 {
                    0 => (Framing::Length { n: (mask as usize >> 8) % 40 }, None),
                    1 if version == "HTTP/1.1" => (Framing::Chunked { chunks: vec![ChunkSpec { len: 1 + (mask as usize >> 8) % 30, upper: false, zeros: 0, ext: None }], last_zeros: 0, last_ext: None }, None),
                    2 if version == "HTTP/1.1" => (Framing::Chunked { chunks: vec![ChunkSpec { len: 3, upper: true, zeros: 0, ext: None }], last_zeros: 0, last_ext: None }, Some((mask as usize >> 8) % 50)),
                    _ => (Framing::None, None),
                };
                let method = if matches!(framing, Framing::None) { method } else { "POST".to_string() };
                // an expectation is a header field like any other in what the application is shown,
                // whatever the version and whether or not a body follows
                let expect = (mask >> 4) % 5 == 0;
                let mut r = build_req(i as u32, method, path, version, headers, framing, also_cl, mask as usize, mask, conn, expect);
                // absolute-form targets are delivered verbatim too
                r.target_prefix = ["", "", "", "", "http://example.com", "http://h:8080", "https://user@host.example", "HTTP://EXAMPLE.COM:80"][(mask as usize >> 27) % 8].to_string();
                conv.reqs.push(r);
            }
            let total = total_len(&conv);
            let script = if split && total > 2 {
                vec![Step::Send { from: 0, to: total / 2 }, Step::Send { from: total / 2, to: total }, Step::HalfClose]
            } else {
                vec![Step::Send { from: 0, to: total }, Step::HalfClose]
            };
            ConvCase { conv, progs: vec![Prog::read_all()], script, transport }
        })
        .boxed()
}

// ------------------------------------------------------------------------------------------
// C03: body delimitation

pub fn read_plan_strategy(body_len: usize) -> BoxedStrategy<ReadPlan> {
    let big = body_len + 100;
    prop_oneof![
        4 => prop_oneof![Just(1usize), Just(7usize), Just(1024usize), Just(4096usize), Just(65536usize), 1usize..big.max(2)].prop_flat_map(|buf| (Just(buf), 1u8..4)).prop_map(move |(buf, extra)| {
            // keep 1-byte reads for small bodies only
            let buf = if buf < 16 && body_len > 20000 { 997 } else { buf };
            ReadPlan::ToEof { buf, extra }
        }),
        2 => proptest::collection::vec(1usize..big.max(2), 1..6).prop_map(ReadPlan::Sizes),
        1 => proptest::collection::vec(prop_oneof![Just(0usize), Just(1usize), Just(1024usize), Just(1025usize)], 1..5).prop_map(ReadPlan::Sizes),
        2 => (0u8..6).prop_map(move |how| if how == 3 && body_len > 20000 { ReadPlan::Std { how: 0 } } else { ReadPlan::Std { how } }),
    ]
    .boxed()
}

pub fn c03_strategy(max_len: usize, transports: BoxedStrategy<Transport>) -> BoxedStrategy<ConvCase> {
    let first = (framing_strategy(max_len), headers_strategy(4), any::<u32>(), version_strategy(), proptest::bool::weighted(0.15));
    (first, 0usize..3, transports, proptest::bool::weighted(0.25))
        .prop_flat_map(|(((framing, also_cl), headers, mask, version, upgrade), followers, transport, split)| {
            let (framing, version) = if upgrade {
                (Framing::Upgrade { rest: framing_body_len(&framing) }, "HTTP/1.1")
            } else {
                (framing, version)
            };
            let blen = framing_body_len(&framing);
            (Just((framing, also_cl, headers, mask, version, followers, transport, split)), read_plan_strategy(blen), small_respond())
        })
        .prop_map(|((framing, also_cl, headers, mask, version, followers, transport, split), read, finish)| {
            let upgrade = matches!(framing, Framing::Upgrade { .. });
            let followers = if upgrade { 0 } else { followers };
            let conn = if upgrade { Some(["upgrade", "Upgrade", "keep-alive, Upgrade", "Upgrade, keep-alive", "upgrade,keep-alive", "UPGRADE", "foo , upgrade"][(mask as usize >> 20) % 7].to_string()) } else { keepalive_for(version, followers == 0) };
            let mut conv = Conversation::default();
            // (now and then the body is announced with an expectation the client does not wait on)
            let expect = !upgrade && (mask >> 29) % 5 == 0;
            // an upgrade request may carry a Content-Length (some clients add `Content-Length: 0` to a
            // handshake): its body is the rest of the connection all the same
            let mut headers = headers;
            if upgrade && (mask >> 26) % 3 == 0 {
                // (never more than what follows: a program may read_exact() the declared length)
                let rest = framing_body_len(&framing);
                headers.push(Hdr::new("Content-Length", &[0usize, rest.min(5), 0][(mask as usize >> 28) % 3].to_string()));
            }
            conv.reqs.push(build_req(0, "POST".into(), "/body".into(), version, headers, framing, also_cl, mask as usize, mask, conn, expect));
            for i in 0..followers {
                conv.reqs.push(sentinel(1 + i as u32));
            }
            let rd = render(&conv);
            let total = rd.bytes.len();
            let mut script = vec![];
            if split && total > 4 {
                let cut = rd.ranges[0].head_end + (rd.ranges[0].end - rd.ranges[0].head_end) / 2;
                script.push(Step::Send { from: 0, to: cut });
                script.push(Step::Send { from: cut, to: total });
            } else {
                script.push(Step::Send { from: 0, to: total });
            }
            script.push(Step::HalfClose);
            // the body-bearing request is read as generated; sentinels just answer
            let progs = vec![Prog { read, finish }, Prog::ok(), Prog::ok()];
            ConvCase { conv, progs, script, transport }
        })
        .boxed()
}

pub fn framing_body_len(f: &Framing) -> usize {
    match f {
        Framing::None => 0,
        Framing::Length { n } => *n,
        Framing::Chunked { chunks, .. } => chunks.iter().map(|c| c.len).sum(),
        Framing::Upgrade { rest } => *rest,
    }
}

// ------------------------------------------------------------------------------------------
// C09: message boundaries whatever the application consumed

fn body_framing_nonempty(max_len: usize) -> BoxedStrategy<Framing> {
    prop_oneof![
        3 => prop_oneof![Just(1usize), Just(5usize), Just(1023usize), Just(1024usize), 1usize..1025].prop_map(|n| Framing::Length { n }),
        3 => prop_oneof![Just(1025usize), Just(1026usize), Just(2048usize), Just(8193usize), Just(40000usize), 1025usize..max_len.max(1026)].prop_map(|n| Framing::Length { n }),
        4 => prop_oneof![Just(1usize), Just(10usize), Just(1024usize), Just(1025usize), Just(9000usize), 1usize..max_len.max(2)]
            .prop_flat_map(chunks_strategy)
            .prop_map(|chunks| Framing::Chunked { chunks, last_zeros: 0, last_ext: None }),
    ]
    .boxed()
}

/// how much of a body of `len` bytes the application consumes
pub fn consumption_strategy(len: usize) -> BoxedStrategy<ReadPlan> {
    prop_oneof![
        3 => Just(ReadPlan::None),
        1 => Just(ReadPlan::Sizes(vec![1])),
        2 => Just(ReadPlan::Sizes(vec![(len / 2).max(1)])),
        2 => Just(ReadPlan::Sizes(vec![len.saturating_sub(1).max(1)])),
        // exactly the body, but end-of-stream never observed
        2 => Just(ReadPlan::Sizes(vec![len.max(1)])),
        2 => (1usize..len.max(2), 1usize..4).prop_map(|(a, k)| ReadPlan::Sizes(vec![a; k])),
        2 => prop_oneof![Just(4096usize), Just(1usize), Just(1024usize)].prop_map(move |buf| ReadPlan::ToEof { buf: if len > 20000 { buf.max(512) } else { buf }, extra: 1 }),
        1 => Just(ReadPlan::Touch { calls: 1 }),
        1 => (0u8..6).prop_map(move |how| if how == 3 && len > 20000 { ReadPlan::Std { how: 0 } } else { ReadPlan::Std { how } }),
    ]
    .boxed()
}

pub fn finish_no_panic() -> BoxedStrategy<Finish> {
    prop_oneof![
        4 => small_respond(),
        2 => Just(Finish::Drop),
        2 => (0usize..3000, proptest::collection::vec(0u16..1024, 0..4), any::<u8>()).prop_map(|(body_len, cuts, flush_mask)| Finish::Writer { body_len, cuts, flush_mask, zero_writes: flush_mask & 0x80 != 0, how: (flush_mask >> 4) & 3 }),
    ]
    .boxed()
}

pub fn c09_strategy(max_len: usize, transports: BoxedStrategy<Transport>) -> BoxedStrategy<ConvCase> {
    c09_strategy_p(max_len, transports, false)
}

/// `with_panic`: handlers may also panic while holding the request (engines with OS threads)
pub fn c09_strategy_p(max_len: usize, transports: BoxedStrategy<Transport>, with_panic: bool) -> BoxedStrategy<ConvCase> {
    let one = body_framing_nonempty(max_len).prop_flat_map(move |f| {
        let len = framing_body_len(&f);
        let fin = if with_panic { prop_oneof![6 => finish_no_panic(), 1 => Just(Finish::Panic)].boxed() } else { finish_no_panic() };
        (Just(f), consumption_strategy(len), fin, headers_strategy(3), any::<u32>())
    });
    (proptest::collection::vec((one, proptest::bool::weighted(0.75)), 1..=3), transports, proptest::bool::weighted(0.2))
        .prop_map(|(items, transport, split)| {
            let mut conv = Conversation::default();
            let mut progs = vec![];
            let mut id = 0u32;
            for ((framing, read, finish, headers, mask), with_body) in items {
                if with_body || id == 0 {
                    // HTTP/1.0 clients with keep-alive reuse the connection too
                    // (a chunked body from a client that calls itself HTTP/1.0 is a chunked body: the
                    // coding named in the message decides where it ends, now and then)
                    let v10 = (!matches!(framing, Framing::Chunked { .. }) || (mask >> 20) % 3 == 0) && (mask >> 24) % 4 == 0;
                    let (version, conn) = if v10 { ("HTTP/1.0", Some(["keep-alive", "Keep-Alive"][(mask as usize >> 26) % 2].to_string())) } else { ("HTTP/1.1", None) };
                    // now and then the body is announced with an expectation; the client sends it without
                    // waiting, whether or not the application ever asks for it
                    let expect = (mask >> 28) % 4 == 0;
                    // a chunked request may carry a Content-Length as well (too small, too large, or the
                    // length of the decoded body): the chunks alone say where it ends
                    let also_cl = if matches!(framing, Framing::Chunked { .. }) && (mask >> 9) % 4 == 0 { Some([0usize, 5, framing_body_len(&framing), 100_000][(mask as usize >> 11) % 4]) } else { None };
                    conv.reqs.push(build_req(id, "POST".into(), "/b".into(), version, headers, framing, also_cl, mask as usize, mask, conn, expect));
                    progs.push(Prog { read, finish });
                } else {
                    conv.reqs.push(sentinel(id));
                    progs.push(Prog { read: ReadPlan::None, finish });
                }
                id += 1;
            }
            // now and then a request the library refuses after its head (an expectation it does not
            // know) stands in front of the last one, with a body the client sends all the same: it is
            // answered 417 and nothing behind its head is taken for a request
            if (conv.reqs.len() * 5 + progs.len() * 3 + conv.reqs[0].headers.len()) % 9 == 4 {
                let blen = [5usize, 300, 1500][(conv.reqs[0].headers.len() + conv.reqs.len()) % 3];
                let mut r = build_req(id, "POST".into(), "/refused".into(), "HTTP/1.1", vec![Hdr::new("Host", "h")], Framing::Length { n: blen }, None, 1, 0, None, false);
                // (a body that would make a fine request if it were read as one)
                let mut body = smuggled_bytes();
                body.resize(blen.max(body.len()), b' ');
                r.framing = Framing::Length { n: body.len() };
                for h in r.headers.iter_mut() {
                    if h.name.eq_ignore_ascii_case("content-length") {
                        h.value = body.len().to_string();
                    }
                }
                r.body_override = Some(body);
                r.mal = Some(Malform::Expect(["200-ok", "100-continuee"][conv.reqs.len() % 2].to_string()));
                conv.reqs.push(r);
                progs.push(Prog::ok());
                id += 1;
            }
            // always end with a plain sentinel so that the last body has a follower
            conv.reqs.push(sentinel(id));
            progs.push(Prog::ok());
            let case0 = ConvCase { conv, progs, script: vec![], transport };
            let n_finals = crate::conv::expect(&case0).msgs.len();
            let rd = render(&case0.conv);
            let total = rd.bytes.len();
            let script = if split && total > 8 {
                // cut inside the first body
                let r0 = &rd.ranges[0];
                let cut = r0.head_end + (r0.end - r0.head_end) / 2;
                vec![Step::Send { from: 0, to: cut.max(1) }, Step::Send { from: cut.max(1), to: total }, Step::AwaitFinals(n_finals), Step::HalfClose]
            } else {
                vec![Step::Send { from: 0, to: total }, Step::AwaitFinals(n_finals), Step::HalfClose]
            };
            ConvCase { script, ..case0 }
        })
        .boxed()
}

// ------------------------------------------------------------------------------------------
// C10: malformed / unsupported requests

use crate::wire::{Malform, Place};

pub fn c10_malform(n_headers: usize) -> BoxedStrategy<Malform> {
    let nh = n_headers.max(1);
    prop_oneof![
        2 => (0u8..4).prop_map(Malform::ReqLineFields),
        3 => proptest::sample::select(vec!["HTTP/1.2", "HTTP/1.10", "HTTP/2", "HTTP/4.0", "http/1.1", "HTTP/1.1x", "HTTP1.1", "HTTP/", "xyz", "HTTP/01.1", "HTTP/1.1.1", "HTTP/11"]).prop_map(|s| Malform::VersionToken(s.to_string())),
        3 => proptest::sample::select(vec!["HTTP/2.0", "HTTP/3.0"]).prop_map(|s| Malform::VersionToken(s.to_string())),
        2 => (0..=nh, proptest::sample::select(vec!["NoColonHere", "X-Broken value", "garbage", "Host", " ", "\t", "  \t ", " x", "a b c", "="])).prop_map(|(at, t)| Malform::HeaderNoColon { at, text: t.to_string() }),
        2 => (prop_oneof![Just(Place::RequestLine), (0..nh).prop_map(Place::HeaderName), (0..nh).prop_map(Place::HeaderValue)], 0x80u8..=0xff).prop_map(|(place, byte)| Malform::NonAscii { place, byte, tail: vec![] }),
        // well-formed multi-byte UTF-8 (é, €, a musical clef, no-break space, em space): no less non-ASCII
        2 => (prop_oneof![2 => Just(Place::RequestLine), 1 => Just(Place::RequestLineEnd), 1 => (0..nh).prop_map(Place::HeaderName), 2 => (0..nh).prop_map(Place::HeaderValue)], proptest::sample::select(vec!["\u{e9}", "\u{20ac}", "\u{1d11e}", "\u{a0}", "\u{2003}", "\u{85}"])).prop_map(|(place, t)| {
            let b = t.as_bytes();
            Malform::NonAscii { place, byte: b[0], tail: b[1..].to_vec() }
        }),
        2 => proptest::sample::select(vec!["100 continue", "100-continue, x", "200-ok", "continue", "100-continuee", "", "\"100-continue\""]).prop_map(|s| Malform::Expect(s.to_string())),
    ]
    .boxed()
}

pub fn c10_strategy(transports: BoxedStrategy<Transport>) -> BoxedStrategy<ConvCase> {
    (1usize..=4, any::<proptest::sample::Index>(), headers_strategy(3), transports, proptest::collection::vec(small_respond(), 4), proptest::option::weighted(0.3, prop_oneof![Just(1usize), Just(600usize), Just(1024usize), Just(1025usize), Just(5000usize)]), prop_oneof![1 => Just(0u32), 2 => any::<u32>()])
        .prop_flat_map(|(n, at, headers, transport, fins, withheld, variety)| {
            let at = at.index(n);
            let nh = headers.len() + 1;
            (Just((n, at, headers, transport, fins, withheld, variety)), c10_malform(nh))
        })
        .prop_map(|((n, at, headers, transport, fins, withheld, variety), mal)| {
            let mut conv = Conversation::default();
            let mut withheld_at: Option<usize> = None;
            for i in 0..n {
                let mut r = ReqSpec::simple(i as u32);
                // the requests around (and the offending one, where its defect is not in the
                // request line) come in both protocol versions and with any method
                let bits = variety >> (i * 6);
                let line_defect = i == at && matches!(mal, Malform::ReqLineFields(_) | Malform::VersionToken(_));
                if !line_defect {
                    if bits & 3 == 3 {
                        r.version = "HTTP/1.0".into();
                        if bits & 4 != 0 || i != at {
                            r.headers.push(Hdr::new("Connection", "keep-alive"));
                        }
                    }
                    r.method = ["GET", "GET", "POST", "PUT", "DELETE", "OPTIONS", "PATCH", "HEAD"][((bits >> 3) & 7) as usize].into();
                }
                if i == at {
                    r.headers.extend(headers.clone());
                    // clamp indices to this request's header list
                    let nh = r.headers.len();
                    let mal = match mal.clone() {
                        Malform::HeaderNoColon { at, text } => Malform::HeaderNoColon { at: at.min(nh), text },
                        Malform::NonAscii { place: Place::HeaderName(k), byte, tail } => Malform::NonAscii { place: Place::HeaderName(k % nh), byte, tail },
                        Malform::NonAscii { place: Place::HeaderValue(k), byte, tail } => Malform::NonAscii { place: Place::HeaderValue(k % nh), byte, tail },
                        m => m,
                    };
                    // a request with a version above 1.1 may carry an expectation and a body the
                    // client withholds until it has an answer: the 505 must not wait for that body
                    if let (Malform::VersionToken(v), Some(blen)) = (&mal, withheld) {
                        if v == "HTTP/2.0" || v == "HTTP/3.0" {
                            r.method = "POST".into();
                            r.headers.push(Hdr::new("Expect", "100-continue"));
                            r.headers.push(Hdr::new("Content-Length", &blen.to_string()));
                            r.framing = Framing::Length { n: blen };
                            withheld_at = Some(i);
                        }
                    }
                    // an unsupported expectation is one whatever the request says about its body
                    if matches!(mal, Malform::Expect(_)) && (variety >> 28) & 3 == 1 {
                        r.headers.push(Hdr::new("Content-Length", "0"));
                    }
                    // ... and whatever it says about the connection (a protocol switch included)
                    if matches!(mal, Malform::Expect(_)) && (variety >> 25) & 3 == 2 {
                        r.headers.push(Hdr::new("Connection", ["upgrade", "keep-alive, Upgrade", "close"][(variety as usize >> 22) % 3]));
                        r.headers.push(Hdr::new("Upgrade", "websocket"));
                    }
                    r.mal = Some(mal);
                }
                conv.reqs.push(r);
            }
            let progs: Vec<Prog> = fins.into_iter().map(|finish| Prog { read: ReadPlan::None, finish }).collect();
            let case0 = ConvCase { conv, progs, script: vec![], transport };
            let exp = crate::conv::expect(&case0);
            let total = total_len(&case0.conv);
            if let Some(i) = withheld_at {
                let rd = render(&case0.conv);
                let cut = rd.ranges[i].head_end;
                // responses up to and including the 505 arrive while the body is still withheld
                let script = vec![Step::Send { from: 0, to: cut }, Step::AwaitFinals(i + 1), Step::Send { from: cut, to: total }, Step::AwaitFinals(exp.msgs.len()), Step::HalfClose];
                return ConvCase { script, ..case0 };
            }
            // a request line that is rejected as such may be the last thing the client sends (a client
            // speaking another protocol, or one that waits for the verdict): no header, no blank line
            let line_rejected = matches!(&case0.conv.reqs[at].mal, Some(Malform::ReqLineFields(_))) || matches!(&case0.conv.reqs[at].mal, Some(Malform::VersionToken(v)) if v != "HTTP/2.0" && v != "HTTP/3.0");
            let total = if line_rejected && (variety >> 30) & 1 == 1 {
                let rd = render(&case0.conv);
                let from = rd.ranges[at].start;
                rd.bytes[from..].windows(2).position(|w| w == b"\r\n").map(|p| from + p + 2).unwrap_or(total)
            } else {
                total
            };
            // the client does not help: it neither closes nor sends more until every expected
            // response is there; then it waits for the close the model predicts (or half-closes)
            let mut script = vec![Step::Send { from: 0, to: total }, Step::AwaitFinals(exp.msgs.len())];
            script.push(if exp.ends_after.is_some() { Step::AwaitEof } else { Step::HalfClose });
            ConvCase { script, ..case0 }
        })
        .boxed()
}

// ------------------------------------------------------------------------------------------
// C12: persistence and orderly close

/// a connection that stays open "serves later requests": also the 300th, also when the heads of
/// all requests together are many times any per-request limit
pub fn c12_long_strategy(transports: BoxedStrategy<Transport>) -> BoxedStrategy<ConvCase> {
    (proptest::sample::select(vec![(30usize, 900usize), (120, 0), (300, 0), (60, 300)]), any::<bool>(), transports, proptest::collection::vec(small_respond(), 3), 0u8..3)
        .prop_map(|((n, pad), v10, transport, fins, mode)| {
            let mut conv = Conversation::default();
            for i in 0..n {
                let mut r = ReqSpec::simple(i as u32);
                if v10 {
                    r.version = "HTTP/1.0".into();
                    r.headers.push(Hdr::new("Connection", "keep-alive"));
                }
                if pad > 0 {
                    r.headers.push(Hdr::new("Cookie", &"c".repeat(pad)));
                }
                conv.reqs.push(r);
            }
            let progs: Vec<Prog> = fins.into_iter().map(|finish| Prog { read: ReadPlan::None, finish }).collect();
            let rd = render(&conv);
            let total = rd.bytes.len();
            let script = match mode {
                // all at once, then half-close: everything received is answered
                0 => vec![Step::Send { from: 0, to: total }, Step::HalfClose],
                // all at once, the client waits for every answer before it closes
                1 => vec![Step::Send { from: 0, to: total }, Step::AwaitFinals(n), Step::HalfClose],
                // one request at a time
                _ => {
                    let mut s = vec![];
                    for (k, r) in rd.ranges.iter().enumerate() {
                        s.push(Step::Send { from: r.start, to: r.end });
                        s.push(Step::AwaitFinals(k + 1));
                    }
                    s.push(Step::HalfClose);
                    s
                }
            };
            ConvCase { conv, progs, script, transport }
        })
        .boxed()
}

pub fn c12_strategy(transports: BoxedStrategy<Transport>) -> BoxedStrategy<ConvCase> {
    let conn11 = prop_oneof![
        6 => Just(None),
        3 => proptest::sample::select(vec!["close", "Close", "CLOSE", "upgrade", "Upgrade", "keep-alive, close", "close, TE", "TE, close", "foo,close", "keep-alive, Upgrade", "Upgrade, keep-alive", "foo , close", "close ,foo", "TE,  upgrade"]).prop_map(|s| Some(s.to_string())),
        3 => proptest::sample::select(vec!["keep-alive", "Keep-Alive", "TE", "foo", "foo, bar", "keep-alive, TE"]).prop_map(|s| Some(s.to_string())),
    ];
    let conn10 = prop_oneof![
        3 => Just(None),
        3 => proptest::sample::select(vec!["keep-alive", "Keep-Alive", "KEEP-ALIVE", "keep-alive, TE", "TE, keep-alive"]).prop_map(|s| Some(s.to_string())),
        2 => proptest::sample::select(vec!["close", "TE", "foo"]).prop_map(|s| Some(s.to_string())),
    ];
    let req = prop_oneof![
        3 => conn11.prop_map(|c| ("HTTP/1.1", c)),
        1 => conn10.prop_map(|c| ("HTTP/1.0", c)),
    ];
    (
        proptest::collection::vec((req, headers_strategy(2), any::<u32>()), 1..=4),
        prop_oneof![2 => Just(0u8), 1 => Just(1u8), 1 => Just(2u8)],
        transports,
        proptest::collection::vec(small_respond(), 5),
        0u8..3,
    )
        .prop_map(|(reqs, trailing_kind, transport, fins, mode)| {
            let mut conv = Conversation::default();
            let mut reads = vec![];
            for (i, ((version, conn), headers, mask)) in reqs.into_iter().enumerate() {
                // now and then a request carries a body (buffered or streamed) which the
                // application reads or leaves alone: persistence does not depend on either
                // (not on an upgrade request: its body is the rest of the connection)
                let upgrades = conn.as_deref().map(|c| c.to_ascii_lowercase().contains("upgrade")).unwrap_or(false);
                let blen = if (mask >> 27) % 4 == 0 && !upgrades { [5usize, 1024, 1025, 3000][(mask as usize >> 29) % 4] } else { 0 };
                // (now and then the body is chunked and a Content-Length stands beside the coding: that
                // says nothing about persistence either)
                let both = blen > 0 && version == "HTTP/1.1" && (mask >> 24) % 4 == 0;
                let (method, framing) = if both { ("POST", Framing::Chunked { chunks: vec![ChunkSpec { len: blen.min(3000), upper: false, zeros: 0, ext: None }], last_zeros: 0, last_ext: None }) } else if blen > 0 { ("POST", Framing::Length { n: blen }) } else { ("GET", Framing::None) };
                let also_cl = if both { Some([blen.min(3000), 0, 7][(mask as usize >> 20) % 3]) } else { None };
                // an Upgrade header without the `upgrade` connection option makes no upgrade request: the
                // body (here: none) ends where the framing says, also for a handler that reads it to its end
                let mut headers = headers;
                let offers_upgrade = !upgrades && (mask >> 22) % 9 == 4;
                if offers_upgrade {
                    headers.push(Hdr::new("Upgrade", ["h2c", "websocket"][(mask as usize >> 20) % 2]));
                }
                reads.push(if (blen > 0 && (mask >> 26) & 1 == 1) || offers_upgrade { ReadPlan::ToEof { buf: 700, extra: 0 } } else { ReadPlan::None });
                conv.reqs.push(build_req(i as u32, method.into(), String::new(), version, headers, framing, also_cl, mask as usize, mask, conn, false));
            }
            // now and then a request of a protocol version the server does not speak sits in the
            // pipeline, carrying `Connection: close` / `upgrade`: it is answered 505 and ends nothing
            if let Some(first) = conv.reqs.first() {
                let m = first.headers.len() * 31 + first.path.len() * 7 + conv.reqs.len();
                if m % 6 == 0 {
                    let at = m % (conv.reqs.len() + 1);
                    let mut r = ReqSpec::simple(100 + at as u32);
                    r.headers.push(Hdr::new("Connection", ["close", "upgrade", "Close"][m % 3]));
                    r.mal = Some(Malform::VersionToken(["HTTP/2.0", "HTTP/3.0"][m % 2].to_string()));
                    conv.reqs.insert(at, r);
                    reads.insert(at, ReadPlan::None);
                }
            }
            conv.trailing = match trailing_kind {
                1 => b"GET /trailing-garbage".to_vec(),
                2 => b"\x00\x01garbage\r\n\r\n".to_vec(),
                _ => vec![],
            };
            let progs: Vec<Prog> = fins.into_iter().enumerate().map(|(i, finish)| Prog { read: reads.get(i).cloned().unwrap_or(ReadPlan::None), finish }).collect();
            let case0 = ConvCase { conv, progs, script: vec![], transport };
            let exp = crate::conv::expect(&case0);
            let rd = render(&case0.conv);
            let total = rd.bytes.len();
            let script = match exp.ends_after {
                Some(_) => {
                    // everything at once (bytes follow the ending request), or request by request
                    if mode == 0 {
                        let mut s = vec![];
                        for (k, r) in rd.ranges.iter().enumerate() {
                            s.push(Step::Send { from: r.start, to: if k + 1 == rd.ranges.len() { total } else { r.end } });
                            if k < exp.msgs.len() {
                                s.push(Step::AwaitFinals((k + 1).min(exp.msgs.len())));
                            }
                            if Some(k) == exp.ends_after {
                                break;
                            }
                        }
                        s.push(Step::AwaitEof);
                        s
                    } else {
                        vec![Step::Send { from: 0, to: total }, Step::AwaitFinals(exp.msgs.len()), Step::AwaitEof]
                    }
                }
                None => {
                    // persistent: a late request goes out only after the earlier responses were read
                    let n = rd.ranges.len();
                    if n >= 2 && mode != 1 {
                        let cut = rd.ranges[n - 1].start;
                        vec![Step::Send { from: 0, to: cut }, Step::AwaitFinals(n - 1), Step::Send { from: cut, to: rd.ranges[n - 1].end }, Step::AwaitFinals(n), Step::HalfClose]
                    } else {
                        // client half-closes right away: everything received is still answered
                        // (now and then it does so in the middle of a streamed body the application does
                        // not ask for: the request is answered all the same, then the server closes)
                        let last = &case0.conv.reqs[n - 1];
                        let streamed_unread = matches!(last.framing, Framing::Length { n } if n > 1024) && matches!(case0.prog(n - 1).read, ReadPlan::None) && last.mal.is_none();
                        let to = if streamed_unread && mode == 1 { rd.ranges[n - 1].head_end + (rd.ranges[n - 1].end - rd.ranges[n - 1].head_end) / 2 } else { rd.ranges[n - 1].end };
                        vec![Step::Send { from: 0, to }, Step::HalfClose]
                    }
                }
            };
            ConvCase { script, ..case0 }
        })
        .boxed()
}

// ------------------------------------------------------------------------------------------
// C16: smuggling-enabling header syntax

pub fn ws_strategy() -> BoxedStrategy<String> {
    proptest::sample::select(vec![" ", "\t", "  ", " \t"]).prop_map(|s| s.to_string()).boxed()
}

pub fn bad_cl_values() -> Vec<&'static str> {
    vec!["", "+5", "-5", "abc", "5x", "0x10", "5 5", "5,5", "5, 5", "18446744073709551616", "1000000000000000000000000000000", "5.0", "1e1", " ", "+0", "-0"]
}

/// a complete request that must never be delivered: what a lenient parser would see
pub fn smuggled_bytes() -> Vec<u8> {
    b"GET /SMUGGLED HTTP/1.1\r\nHost: evil\r\n\r\n".to_vec()
}

pub fn c16_strategy(transports: BoxedStrategy<Transport>) -> BoxedStrategy<ConvCase> {
    let kind = prop_oneof![
        3 => (0u8..3, ws_strategy()).prop_map(|(t, ws)| (0u8, t, ws)), // ws before name
        2 => (0u8..3, ws_strategy()).prop_map(|(t, ws)| (1u8, t, ws)), // ws in name
        3 => (0u8..3, ws_strategy()).prop_map(|(t, ws)| (2u8, t, ws)), // ws before colon
        4 => proptest::sample::select(bad_cl_values()).prop_map(|v| (3u8, 0u8, v.to_string())), // bad CL value
        2 => proptest::sample::select(vec![" ", "\t", "  ", " \t "]).prop_map(|v| (4u8, 2u8, v.to_string())), // a line of whitespace only (empty fold line)
        // a bad Content-Length value whose offending part stands far into a very long line (beyond
        // 1, 4, 8, 16, 64 KiB): a line counts as a whole, however long it is
        1 => (proptest::sample::select(vec![100usize, 1020, 4090, 8185, 9000, 16400, 70000]), proptest::sample::select(vec![" ", "\t"]), proptest::sample::select(vec!["x", ", 40", " 6", "+", ",", "5 5"]))
            .prop_map(|(n, ws, tail)| (3u8, 0u8, format!("5{}{}", ws.repeat(n), tail))),
        // two Content-Length lines, both plain numbers, that say different things
        1 => (0u8..2).prop_map(|o| (5u8, 0u8, if o == 0 { String::new() } else { "x".to_string() })),
    ];
    (1usize..=3, any::<proptest::sample::Index>(), kind, headers_strategy(3), transports, any::<bool>(), proptest::collection::vec(small_respond(), 3))
        .prop_map(|(n, at, (kind, target, text), headers, transport, fold_first, fins)| {
            let at = at.index(n);
            let smuggled = smuggled_bytes();
            let mut conv = Conversation::default();
            for i in 0..n {
                let mut r = ReqSpec::simple(i as u32);
                if i == at {
                    r.method = "POST".into();
                    r.headers.extend(headers.clone());
                    // whatever protocol version the request line names (a version above 1.1 is answered
                    // 505 and the connection goes on: the framing of the rejected request then matters)
                    match (text.len() * 7 + headers.len() * 5 + n * 3) % 6 {
                        1 => r.version = "HTTP/1.0".into(),
                        2 => r.version = "HTTP/2.0".into(),
                        3 => r.version = "HTTP/3.0".into(),
                        _ => {}
                    }
                    // whatever the request says about the connection, the offence is an offence
                    match text.len() + headers.len() * 3 + n {
                        k if k % 5 == 1 => r.headers.push(Hdr::new("Connection", "upgrade")),
                        k if k % 5 == 2 => r.headers.push(Hdr::new("Connection", "keep-alive, Upgrade")),
                        k if k % 5 == 3 => r.headers.push(Hdr::new("Connection", "close")),
                        _ => {}
                    }
                    // the header the mutation is applied to
                    let (hname, hvalue): (&str, String) = match (kind, target) {
                        (3, _) => ("Content-Length", "0".to_string()),
                        (_, 0) => ("Content-Length", smuggled.len().to_string()),
                        (_, 1) => ("Transfer-Encoding", "chunked".to_string()),
                        _ => ("X-Other", "v".to_string()),
                    };
                    // now and then a long run of well-formed header lines comes first: the offence counts
                    // wherever it stands in the head
                    let fillers = if (text.len() * 3 + headers.len() + n) % 7 == 3 { [99usize, 100, 101, 128, 300][(text.len() + n) % 5] } else { 0 };
                    for i in 0..fillers {
                        r.headers.push(Hdr::new(&format!("X-F{}", i), "v"));
                    }
                    // position: first header line or a later one (obs-fold when whitespace leads)
                    let pos = if fold_first && fillers == 0 { 0 } else { r.headers.len() };
                    r.headers.insert(pos, Hdr::new(hname, &hvalue));
                    // a bad Content-Length line may stand beside a good one, before or after it: every
                    // line counts, whichever a parser would pick
                    let mut pos = pos;
                    if kind == 3 && (text.len() + n + headers.len()) % 3 == 0 {
                        let good = Hdr::new("Content-Length", &[0usize, smuggled.len()][(text.len() + n) % 2].to_string());
                        if (text.len() / 2 + headers.len()) % 2 == 0 {
                            r.headers.insert(pos, good);
                            pos += 1;
                        } else {
                            r.headers.insert(pos + 1, good);
                        }
                    }
                    if kind == 5 {
                        // (the line at `pos` names the length of what follows; the other one says 0)
                        let other = Hdr::new("Content-Length", "0");
                        if text.is_empty() {
                            r.headers.insert(pos, other);
                            pos += 1;
                        } else {
                            r.headers.insert(pos + 1, other);
                        }
                    }
                    r.mal = Some(match kind {
                        5 => Malform::ContentLengthLinesDisagree { at: pos },
                        4 => Malform::HeaderNoColon { at: pos, text: text.clone() },
                        0 => Malform::WsBeforeName { at: pos, ws: text.clone() },
                        1 => Malform::WsInName { at: pos, ws: text.clone() },
                        2 => Malform::WsBeforeColon { at: pos, ws: text.clone() },
                        _ => Malform::BadContentLength { at: pos, value: text.clone() },
                    });
                    // lay the following bytes out so that the *wrong* reading yields a request
                    match (kind, target) {
                        (_, 1) if kind != 3 => {
                            // wrong reading "not chunked": the chunked body is a request + rest
                            r.framing = Framing::Length { n: 0 };
                            let mut b = smuggled.clone();
                            b.extend_from_slice(b"0\r\n\r\n");
                            r.body_override = Some(b);
                            r.framing = Framing::Length { n: r.body_override.as_ref().unwrap().len() };
                        }
                        _ => {
                            // wrong reading "no/ignored Content-Length": the body is a request
                            r.body_override = Some(smuggled.clone());
                            r.framing = Framing::Length { n: smuggled.len() };
                        }
                    }
                }
                conv.reqs.push(r);
            }
            let progs: Vec<Prog> = fins.into_iter().map(|finish| Prog { read: ReadPlan::ToEof { buf: 512, extra: 0 }, finish }).collect();
            let case0 = ConvCase { conv, progs, script: vec![], transport };
            let exp = crate::conv::expect(&case0);
            let total = total_len(&case0.conv);
            // the offending line may be the last thing the client sends: it then waits for the verdict
            // with its connection open, or half-closes
            let rd = render(&case0.conv);
            let off_pos = match &case0.conv.reqs[at].mal {
                Some(Malform::HeaderNoColon { at, .. }) | Some(Malform::WsBeforeName { at, .. }) | Some(Malform::WsInName { at, .. }) | Some(Malform::WsBeforeColon { at, .. }) => Some(*at),
                _ => None,
            };
            let cut_mode = (text.len() * 5 + headers.len() * 11 + n * 7 + kind as usize) % 4;
            let line_end = off_pos.and_then(|p| {
                let from = rd.ranges[at].start;
                let mut seen = 0;
                let b = &rd.bytes[from..rd.ranges[at].head_end];
                (0..b.len().saturating_sub(1)).find(|i| {
                    if b[*i] == b'\r' && b[*i + 1] == b'\n' {
                        seen += 1;
                    }
                    seen == p + 2
                }).map(|i| from + i + 2)
            });
            let script = match (cut_mode, line_end) {
                (1, Some(e)) => vec![Step::Send { from: 0, to: e }, Step::AwaitFinals(exp.msgs.len()), Step::AwaitEof],
                (2, Some(e)) => vec![Step::Send { from: 0, to: e }, Step::HalfClose],
                _ => vec![Step::Send { from: 0, to: total }, Step::AwaitFinals(exp.msgs.len()), Step::AwaitEof],
            };
            ConvCase { script, ..case0 }
        })
        .boxed()
}

// ------------------------------------------------------------------------------------------
// C18: 100-continue

pub fn c18_strategy(transports: BoxedStrategy<Transport>) -> BoxedStrategy<ConvCase> {
    let prog = |len: usize| {
        prop_oneof![
            3 => small_respond().prop_map(|finish| Prog { read: ReadPlan::None, finish }),
            3 => (1u8..4, small_respond()).prop_map(|(calls, finish)| (calls, finish)).prop_map(|(calls, finish)| Prog { read: ReadPlan::ToEof { buf: 700 + calls as usize, extra: calls }, finish }),
            2 => small_respond().prop_map(move |finish| Prog { read: ReadPlan::Sizes(vec![(len / 2).max(1)]), finish }),
            2 => (1u8..4, small_respond()).prop_map(|(calls, finish)| Prog { read: ReadPlan::Touch { calls }, finish }),
            1 => Just(Prog { read: ReadPlan::None, finish: Finish::Drop }),
            1 => Just(Prog { read: ReadPlan::Touch { calls: 2 }, finish: Finish::Drop }),
            // answered through the raw writer, the body asked for or not
            1 => (0usize..60, any::<u8>()).prop_map(|(body_len, m)| Prog { read: ReadPlan::None, finish: Finish::Writer { body_len, cuts: vec![], flush_mask: m, zero_writes: false, how: m & 3 } }),
            1 => (0usize..60, any::<u8>()).prop_map(|(body_len, m)| Prog { read: ReadPlan::ToEof { buf: 900, extra: 1 }, finish: Finish::Writer { body_len, cuts: vec![], flush_mask: m, zero_writes: false, how: m & 3 } }),
        ]
    };
    (proptest::sample::select(vec![0usize, 1, 5, 1024, 1025, 5000]), proptest::bool::weighted(0.8), any::<u32>(), prop_oneof![4 => Just("HTTP/1.1"), 1 => Just("HTTP/1.0")], proptest::bool::weighted(0.3), transports, 0usize..2, headers_strategy(2))
        .prop_flat_map(move |(len, expect, mask, version, chunked, transport, followers, headers)| (Just((len, expect, mask, version, chunked, transport, followers, headers)), prog(len)))
        .prop_flat_map(|((len, expect, mask, version, chunked, transport, followers, headers), p)| {
            let chunks = if chunked && version == "HTTP/1.1" { chunks_strategy(len).prop_map(Some).boxed() } else { Just(None).boxed() };
            (Just((len, expect, mask, version, transport, followers, headers, p)), chunks)
        })
        .prop_map(|((len, expect, mask, version, transport, followers, headers, p), chunks)| {
            let framing = match chunks {
                Some(c) => Framing::Chunked { chunks: c, last_zeros: 0, last_ext: None },
                None => Framing::Length { n: len },
            };
            let mut conv = Conversation::default();
            let mut conn = keepalive_for(version, followers == 0);
            // a protocol switch the application accepts through `upgrade()` without ever asking for a
            // body: the 101 is the only message, whatever the request expects
            let (framing, p) = if followers == 0 && version == "HTTP/1.1" && matches!(framing, Framing::Length { .. }) && (mask >> 19) % 8 == 0 {
                conn = Some(["upgrade", "Upgrade, keep-alive"][(mask as usize >> 26) % 2].to_string());
                (Framing::Upgrade { rest: len.min(40) }, Prog { read: ReadPlan::None, finish: Finish::Upgrade { proto: "websocket".into() } })
            } else {
                (framing, p)
            };
            let switched = matches!(framing, Framing::Upgrade { .. });
            // an upgrade offer the application ignores (e.g. h2c): the request is handled as plain
            // HTTP, and its expectation is an expectation like any other
            // (only where the body is asked for: an upgrade request answered without reading ends the
            // connection at once, and a client still sending its body then sees a broken pipe)
            if !switched && followers == 0 && matches!(framing, Framing::Length { .. }) && version == "HTTP/1.1" && (mask >> 23) % 6 == 0 && matches!(p.read, ReadPlan::ToEof { .. }) {
                conn = Some(["Upgrade, HTTP2-Settings", "upgrade", "keep-alive, Upgrade"][(mask as usize >> 26) % 3].to_string());
            }
            conv.reqs.push(build_req(0, "POST".into(), "/upload".into(), version, headers, framing, None, mask as usize, mask, conn, expect));
            for i in 0..followers {
                conv.reqs.push(sentinel(1 + i as u32));
            }
            let rd = render(&conv);
            let total = rd.bytes.len();
            // (a handler that takes the raw writer without having asked for the body is given an eager
            // client here: `into_writer` consumes the request and therefore waits for its unread body
            // before the application can write a byte; neither C18's nor C06's statement speaks of that,
            // see the note in c06_withhold_strategy)
            let writer_unread = matches!(p.finish, Finish::Writer { .. }) && matches!(p.read, ReadPlan::None);
            let script = if expect && (mask >> 29) % 4 != 0 && !writer_unread {
                // send the head, wait for *a* message (the 100, or the final answer), then the rest
                vec![Step::Send { from: 0, to: rd.ranges[0].head_end }, Step::AwaitMsgs(1), Step::Send { from: rd.ranges[0].head_end, to: total }, Step::HalfClose]
            } else {
                vec![Step::Send { from: 0, to: total }, Step::HalfClose]
            };
            ConvCase { conv, progs: vec![p, Prog::ok()], script, transport }
        })
        .boxed()
}

// ------------------------------------------------------------------------------------------
// C06: exactly one final response per delivered request

pub fn c06_strategy(transports: BoxedStrategy<Transport>, with_panic: bool) -> BoxedStrategy<ConvCase> {
    let finish = move || {
        prop_oneof![
            4 => respond_strategy(),
            2 => (0usize..3000, proptest::collection::vec(0u16..1024, 0..4), any::<u8>()).prop_map(|(body_len, cuts, flush_mask)| Finish::Writer { body_len, cuts, flush_mask, zero_writes: flush_mask & 0x80 != 0, how: (flush_mask >> 4) & 3 }),
            3 => Just(Finish::Drop),
            if with_panic { 2 } else { 0 } => Just(Finish::Panic),
        ]
    };
    let one = (prop_oneof![2 => Just(Framing::None), 2 => body_framing_nonempty(20000)], proptest::bool::weighted(0.1))
        .prop_flat_map(move |(f, head)| {
            let len = framing_body_len(&f);
            (Just(f), Just(head), prop_oneof![2 => Just(ReadPlan::None), 1 => Just(ReadPlan::Sizes(vec![(len / 2).max(1)])), 2 => Just(ReadPlan::ToEof { buf: 2048, extra: 0 })], finish(), any::<u32>())
        });
    (proptest::collection::vec(one, 1..=5), transports, proptest::bool::weighted(0.3), any::<bool>())
        .prop_map(|(items, transport, upgrade_last, wait_101)| {
            let n = items.len();
            let mut conv = Conversation::default();
            let mut progs = vec![];
            for (i, (framing, head, read, finish, mask)) in items.into_iter().enumerate() {
                let last = i + 1 == n;
                if last && upgrade_last {
                    conv.reqs.push(build_req(i as u32, "GET".into(), "/ws".into(), "HTTP/1.1", vec![Hdr::new("Host", "h")], Framing::Upgrade { rest: 7 }, None, 1, mask, Some("upgrade".into()), false));
                    progs.push(Prog { read: ReadPlan::None, finish: Finish::Upgrade { proto: "websocket".into() } });
                    continue;
                }
                // unread chunked bodies are C09's business: here chunked bodies are read to the end
                let read = if matches!(framing, Framing::Chunked { .. }) { ReadPlan::ToEof { buf: 2048, extra: 0 } } else { read };
                let (method, framing, finish) = if head && matches!(finish, Finish::Respond { .. } | Finish::Drop | Finish::Panic) { ("HEAD".to_string(), Framing::None, finish) } else { ("POST".to_string(), framing, finish) };
                let read = if method == "HEAD" { ReadPlan::None } else { read };
                // (an HTTP/1.0 client that keeps its connection alive is answered like any other)
                let v10 = (mask >> 24) % 5 == 0 && !matches!(framing, Framing::Chunked { .. });
                let (version, conn) = if v10 { ("HTTP/1.0", Some("keep-alive".to_string())) } else { ("HTTP/1.1", None) };
                conv.reqs.push(build_req(i as u32, method, "/x".into(), version, vec![Hdr::new("Host", "h")], framing, None, 1, mask, conn, false));
                progs.push(Prog { read, finish });
            }
            // now and then a request of a protocol version the server does not speak stands in the
            // pipeline: it gets its one 505, and the requests around it their one answer each
            if !(upgrade_last && wait_101) && (conv.reqs.len() * 7 + progs.len() + conv.reqs[0].headers.len()) % 5 == 0 {
                let at = (conv.reqs[0].path.len() + conv.reqs.len()) % conv.reqs.len();
                let mut r = ReqSpec::simple(500 + at as u32);
                r.mal = Some(Malform::VersionToken(["HTTP/2.0", "HTTP/3.0"][conv.reqs.len() % 2].to_string()));
                conv.reqs.insert(at, r);
                progs.insert(at, Prog::ok());
            }
            let n = conv.reqs.len();
            let total = total_len(&conv);
            let script = if upgrade_last && wait_101 {
                // the client speaks on the upgraded stream only once it has seen the 101
                let rd = render(&conv);
                let cut = rd.ranges[n - 1].head_end;
                vec![Step::Send { from: 0, to: cut }, Step::AwaitFinals(n), Step::Send { from: cut, to: total }, Step::HalfClose]
            } else {
                vec![Step::Send { from: 0, to: total }, Step::HalfClose]
            };
            ConvCase { conv, progs, script, transport }
        })
        .boxed()
}

/// C06, "a dropped request never holds up ...": the client withholds part of a streamed body
/// until the answer to that request has arrived
pub fn c06_withhold_strategy(transports: BoxedStrategy<Transport>) -> BoxedStrategy<ConvCase> {
    let framing = prop_oneof![
        3 => prop_oneof![Just(1025usize), Just(3000usize), Just(20000usize)].prop_map(|n| (Framing::Length { n }, false)),
        3 => prop_oneof![Just(5usize), Just(1500usize), Just(9000usize)].prop_flat_map(chunks_strategy).prop_map(|chunks| (Framing::Chunked { chunks, last_zeros: 0, last_ext: None }, false)),
        2 => prop_oneof![Just(1usize), Just(600usize), Just(1024usize)].prop_map(|n| (Framing::Length { n }, true)),
    ];
    // (into_writer() consumes the request and therefore drains the unread body before the
    // application can write: not covered by the statement, so not generated here)
    let finish = prop_oneof![4 => Just(Finish::Drop), 2 => small_respond()];
    (framing, finish, prop_oneof![Just(ReadPlan::None), Just(ReadPlan::Sizes(vec![1]))], 0usize..3, 0u16..1000, transports, any::<u32>())
        .prop_map(|((framing, expect), finish, read, followers, frac, transport, mask)| {
            let mut conv = Conversation::default();
            // with an expectation the application must not ask for the body (else it would get a 100 first)
            // (a 1-byte read of a chunked body needs the whole chunk-size line: keep it to Content-Length)
            let read = if expect || matches!(framing, Framing::Chunked { .. }) { ReadPlan::None } else { read };
            conv.reqs.push(build_req(0, "POST".into(), "/held".into(), "HTTP/1.1", vec![Hdr::new("Host", "h")], framing, None, 1, mask, None, expect));
            let mut progs = vec![Prog { read: read.clone(), finish }];
            for i in 0..followers {
                conv.reqs.push(sentinel(1 + i as u32));
                progs.push(Prog::ok());
            }
            let rd = render(&conv);
            let r0 = &rd.ranges[0];
            let body_len = r0.end - r0.head_end;
            // the application may read 1 byte: keep at least 2 bytes of body on the wire then
            let min_sent = if matches!(read, ReadPlan::Sizes(_)) { 8.min(body_len.saturating_sub(1)) } else { 0 };
            let sent_body = (min_sent + (frac as usize * body_len.saturating_sub(min_sent + 1)) / 1000).min(body_len.saturating_sub(1));
            let cut = r0.head_end + sent_body;
            let script = vec![Step::Send { from: 0, to: cut }, Step::AwaitFinals(1), Step::Send { from: cut, to: rd.bytes.len() }, Step::HalfClose];
            ConvCase { conv, progs, script, transport }
        })
        .boxed()
}

// ------------------------------------------------------------------------------------------
// C04 through a real connection: `respond()` incl. the HEAD rule and the request's TE header

pub fn c04_conn_strategy(transports: BoxedStrategy<Transport>) -> BoxedStrategy<ConvCase> {
    let te = proptest::option::weighted(0.4, proptest::sample::select(vec!["chunked", "identity", "trailers", "chunked;q=0.5, identity;q=0.4", "identity;q=0.9, chunked;q=0.1", "gzip, chunked", "chunked;q=0"]).prop_map(|s| s.to_string()));
    let one = (
        proptest::bool::weighted(0.3),
        version_strategy(),
        te,
        crate::resp::status_strategy(),
        len_strategy(70_000),
        proptest::bool::weighted(0.7),
        proptest::option::weighted(0.4, prop_oneof![Just(0usize), Just(1usize), Just(usize::MAX), Just(1024usize)]),
    );
    (proptest::collection::vec(one, 1..=3), transports)
        .prop_map(|(items, transport)| {
            let n = items.len();
            let mut conv = Conversation::default();
            let mut progs = vec![];
            for (i, (head, version, te, status, body_len, declared, threshold)) in items.into_iter().enumerate() {
                let last = i + 1 == n;
                let mut hs = vec![Hdr::new("Host", "h")];
                if let Some(t) = te {
                    hs.push(Hdr::new("TE", &t));
                }
                let conn = keepalive_for(version, last);
                conv.reqs.push(build_req(i as u32, if head { "HEAD".into() } else { "GET".into() }, String::new(), version, hs, Framing::None, None, 0, 0, conn, false));
                progs.push(Prog { read: ReadPlan::None, finish: Finish::Respond { status, body_len, declared, threshold } });
            }
            let total = total_len(&conv);
            ConvCase { conv, progs, script: vec![Step::Send { from: 0, to: total }, Step::HalfClose], transport }
        })
        .boxed()
}

/// C06, "not answered twice": a respond() whose body source fails half-way
pub fn c06_failing_strategy(transports: BoxedStrategy<Transport>) -> BoxedStrategy<ConvCase> {
    (prop_oneof![Just(10usize), Just(100usize), Just(2000usize), Just(40000usize)], 0usize..60, any::<bool>(), 0usize..3, transports, proptest::bool::weighted(0.3))
        .prop_map(|(declared_len, fail_after, panic, followers, transport, head)| {
            let mut conv = Conversation::default();
            let mut r = ReqSpec::simple(0);
            if head {
                r.method = "HEAD".into();
            }
            conv.reqs.push(r);
            let mut progs = vec![Prog { read: ReadPlan::None, finish: Finish::RespondFailing { declared_len, fail_after: fail_after.min(declared_len.saturating_sub(1)), panic } }];
            for i in 0..followers {
                conv.reqs.push(sentinel(1 + i as u32));
                progs.push(Prog::ok());
            }
            let total = total_len(&conv);
            ConvCase { conv, progs, script: vec![Step::Send { from: 0, to: total }, Step::HalfClose], transport }
        })
        .boxed()
}

/// C12, "the server closes its sending side once everything received has been answered": the
/// ending request has a streamed body the client has not finished sending, the application
/// answers without reading it, the client keeps its sending side open and waits for the close
pub fn c12_withheld_strategy(transports: BoxedStrategy<Transport>) -> BoxedStrategy<ConvCase> {
    let framing = prop_oneof![
        3 => prop_oneof![Just(1025usize), Just(4000usize)].prop_map(|n| (Framing::Length { n }, false)),
        2 => prop_oneof![Just(10usize), Just(3000usize)].prop_flat_map(chunks_strategy).prop_map(|chunks| (Framing::Chunked { chunks, last_zeros: 0, last_ext: None }, false)),
        2 => prop_oneof![Just(5usize), Just(1024usize)].prop_map(|n| (Framing::Length { n }, true)),
    ];
    (framing, 0usize..3, 0u16..1000, transports, any::<u32>(), small_respond(), any::<bool>())
        .prop_map(|((framing, expect), before, frac, transport, mask, fin, v10)| {
            let mut conv = Conversation::default();
            let mut progs = vec![];
            for i in 0..before {
                conv.reqs.push(sentinel(i as u32));
                progs.push(Prog::ok());
            }
            let chunked = matches!(framing, Framing::Chunked { .. });
            let (version, conn) = if v10 && !chunked { ("HTTP/1.0", None) } else { ("HTTP/1.1", Some(["close", "Close", "keep-alive, close"][(mask as usize >> 8) % 3].to_string())) };
            conv.reqs.push(build_req(before as u32, "POST".into(), "/last".into(), version, vec![Hdr::new("Host", "h")], framing, None, 1, mask, conn, expect));
            progs.push(Prog { read: ReadPlan::None, finish: fin });
            let rd = render(&conv);
            let r = &rd.ranges[before];
            let body_len = r.end - r.head_end;
            let cut = r.head_end + (frac as usize * body_len.saturating_sub(1)) / 1000;
            let script = vec![Step::Send { from: 0, to: cut }, Step::AwaitFinals(before + 1), Step::AwaitEof];
            ConvCase { conv, progs, script, transport }
        })
        .boxed()
}
