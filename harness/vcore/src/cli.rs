//! Command line shared by the harness binaries.

use crate::report::{load_known, BinReport, EngineReport};
use crate::runner::RunCfg;

#[derive(Clone, Debug)]
pub struct Cli {
    pub property: String,
    pub thorough: bool,
    pub seed: u64,
    pub replay: Option<String>,
    pub out: String,
    pub workers: usize,
    /// multiplies every case budget (used by sensitivity experiments)
    pub scale: f64,
    pub only_part: Option<String>,
}

impl Cli {
    pub fn parse(bin: &str) -> Cli {
        let args: Vec<String> = std::env::args().collect();
        if args.len() < 2 {
            eprintln!("usage: {} <PROPERTY> [--tier quick|thorough] [--seed N] [--replay FILE] [--out FILE] [--workers N] [--scale F] [--part NAME]", bin);
            std::process::exit(2);
        }
        let mut cli = Cli {
            property: args[1].clone(),
            thorough: std::env::var("VERIF_TIER").map(|t| t == "thorough").unwrap_or(false),
            seed: std::env::var("VERIF_SEED").ok().and_then(|s| s.parse().ok()).unwrap_or(0),
            replay: None,
            out: format!("{}/target/reports/{}.{}.json", crate::report::verif_root(), args[1], bin),
            workers: std::thread::available_parallelism().map(|n| n.get()).unwrap_or(4).min(16),
            scale: 1.0,
            only_part: None,
        };
        let mut i = 2;
        while i < args.len() {
            let need = |i: usize| -> String {
                args.get(i + 1).cloned().unwrap_or_else(|| {
                    eprintln!("missing value for {}", args[i]);
                    std::process::exit(2)
                })
            };
            match args[i].as_str() {
                "--tier" => {
                    cli.thorough = need(i) == "thorough";
                    i += 1;
                }
                "--seed" => {
                    cli.seed = need(i).parse().unwrap_or(0);
                    i += 1;
                }
                "--replay" => {
                    cli.replay = Some(need(i));
                    i += 1;
                }
                "--out" => {
                    cli.out = need(i);
                    i += 1;
                }
                "--workers" => {
                    cli.workers = need(i).parse().unwrap_or(1);
                    i += 1;
                }
                "--scale" => {
                    cli.scale = need(i).parse().unwrap_or(1.0);
                    i += 1;
                }
                "--part" => {
                    cli.only_part = Some(need(i));
                    i += 1;
                }
                other => {
                    eprintln!("unknown argument {}", other);
                    std::process::exit(2);
                }
            }
            i += 1;
        }
        cli
    }

    /// budget helper: quick / thorough case counts, scaled
    pub fn cases(&self, quick: u64, thorough: u64) -> u64 {
        // quick budgets in the parts are written for ~1-3 s; the registered quick tier does 5x that
        let quick_factor: u64 = std::env::var("VERIF_QUICK_FACTOR").ok().and_then(|s| s.parse().ok()).unwrap_or(5);
        let base = if self.thorough { thorough } else { quick * quick_factor };
        ((base as f64) * self.scale).max(1.0) as u64
    }

    pub fn cfg(&self, part: &str, engine: &str, cases: u64) -> RunCfg {
        RunCfg {
            property: self.property.clone(),
            part: part.to_string(),
            engine: engine.to_string(),
            seed: self.seed,
            workers: self.workers,
            cases,
            max_shrink_iters: 2000,
            known: load_known(&self.property),
            strict: self.replay.is_some(),
            max_samples: 4,
        }
    }

    pub fn wants(&self, part: &str) -> bool {
        self.only_part.as_deref().map(|p| p == part).unwrap_or(true)
    }
}

pub fn finish(cli: &Cli, parts: Vec<EngineReport>, rule: &str, assumptions: &[&str]) -> ! {
    let rep = BinReport { parts, rule: rule.to_string(), assumptions: assumptions.iter().map(|s| s.to_string()).collect() };
    rep.write(&cli.out);
    let fails: usize = rep.parts.iter().map(|p| p.failures.len()).sum();
    let inconc: usize = rep.parts.iter().map(|p| p.inconclusive.len()).sum();
    for p in &rep.parts {
        eprintln!(
            "[{} {} {}] evaluations={} nontrivial={} failures={} inconclusive={} known_hits={:?} wall={:.1}s",
            p.property,
            p.engine,
            p.part,
            p.evaluations,
            p.nontrivial_fps.len(),
            p.failures.len(),
            p.inconclusive.len(),
            p.known_hits,
            p.wall_s
        );
        for f in &p.failures {
            eprintln!("  FAIL {} :: {}", f.signature, f.detail.chars().take(600).collect::<String>());
        }
        for m in p.inconclusive.iter().take(3) {
            eprintln!("  INCONCLUSIVE {}", m.chars().take(400).collect::<String>());
        }
    }
    std::process::exit(if fails > 0 { 1 } else if inconc > 0 { 2 } else { 0 })
}

/// Runs (or replays) the parts of one property and exits with the contract's exit code.
pub fn drive(cli: &Cli, parts: Vec<crate::runner::Part<'_>>, rule: &str, assumptions: &[&str]) -> ! {
    use crate::runner::Verdict;
    if let Some(path) = &cli.replay {
        let text = std::fs::read_to_string(path).unwrap_or_else(|e| {
            eprintln!("cannot read replay file {}: {}", path, e);
            std::process::exit(2)
        });
        let rec: crate::report::FailureRec = serde_json::from_str(&text).unwrap_or_else(|e| {
            eprintln!("cannot parse replay file {}: {}", path, e);
            std::process::exit(2)
        });
        let Some(part) = parts.iter().find(|p| p.name == rec.part) else {
            // not one of ours (another binary owns it)
            eprintln!("replay: part {} not in this binary", rec.part);
            std::process::exit(3)
        };
        match (part.replay)(&rec.case) {
            Err(e) => {
                eprintln!("replay: {}", e);
                std::process::exit(2)
            }
            Ok(Verdict::Pass(_)) => {
                println!("REPLAY property={} part={} result=pass", rec.property, rec.part);
                std::process::exit(0)
            }
            Ok(Verdict::Inconclusive(m)) => {
                println!("REPLAY property={} part={} result=inconclusive {}", rec.property, rec.part, m);
                std::process::exit(2)
            }
            Ok(Verdict::Fail(b)) => {
                println!("REPLAY property={} part={} result=fail signature={}", rec.property, rec.part, b.signature);
                println!("  {}", b.detail);
                println!("VIOLATION property={} replay={}", rec.property, path);
                std::process::exit(1)
            }
        }
    }
    let mut reports = vec![];
    for p in &parts {
        if !cli.wants(&p.name) {
            continue;
        }
        let mut cfg = cli.cfg(&p.name, &p.engine, p.cases);
        cfg.max_shrink_iters = p.max_shrink_iters;
        if let Some(m) = p.max_workers {
            cfg.workers = cfg.workers.min(m);
        }
        reports.push((p.run)(&cfg));
    }
    finish(cli, reports, rule, assumptions)
}
