//! Response-side cases (C04, C05, C19): case type, generators, reference models and oracles.
//! The engine (in `vreal`) only builds the `tiny_http::Response`, calls `raw_print` and hands
//! back a `RespOut`.

use crate::respparse::{parse_one, BodyFraming, Msg, ParseErr};
use crate::runner::{fail, Good, Verdict};
use crate::te::{admissible, Coding};
use proptest::prelude::*;
use serde::{Deserialize, Serialize};

#[derive(Clone, Debug, PartialEq, Eq, Serialize, Deserialize)]
pub enum Ctor {
    New,
    FromString,
    FromData,
    Empty,
    NewEmpty,
    FromFile,
}

#[derive(Clone, Debug, PartialEq, Eq, Serialize, Deserialize)]
pub enum Via {
    /// passed in the `headers` argument of `Response::new` (only with `Ctor::New`, else = Add)
    Ctor,
    Add,
    With,
}

#[derive(Clone, Debug, PartialEq, Eq, Serialize, Deserialize)]
pub struct HdrOp {
    pub via: Via,
    pub name: String,
    pub value: String,
}

#[derive(Clone, Debug, PartialEq, Eq, Serialize, Deserialize)]
pub struct RespCase {
    pub ctor: Ctor,
    pub status: u16,
    pub headers: Vec<HdrOp>,
    pub body_len: usize,
    pub body_seed: u8,
    /// whether `data_length` is declared (`Some(body_len)`); only meaningful for `Ctor::New`
    /// and for `with_data`
    pub declared: bool,
    /// replace the body through `with_data` after construction
    pub with_data: bool,
    pub threshold: Option<usize>,
    pub version: (u8, u8),
    pub head: bool,
    pub te: Option<String>,
    /// sizes of the pieces the reader hands out (cycled); empty = all at once
    pub pieces: Vec<usize>,
    pub upgrade: Option<String>,
    /// for FromString: use multi-byte text (body_len then counts bytes of the generated text)
    pub utf8: bool,
    /// order of the builder calls (semantically neutral): bit0 = header operations before
    /// `boxed()`, bit1 = boxed twice, bits2-3 = where the chunking threshold is set (1 = before
    /// boxing, 2 = right after boxing, else last), bit4 = constructed with another status which
    /// `with_status_code` then replaces (bit5: after boxing), bit6/bit7 = the later half / all of
    /// the constructor's headers are handed over through the `additional_headers` channel
    #[serde(default)]
    pub plan: u8,
    /// how the writer given to raw_print behaves: 0 takes everything; 1 / 2 / 3 take at most
    /// 1 / 7 / 1000 bytes per call; 4 and 5 also report `Interrupted` on every 3rd / 2nd call
    /// (taking at most 13 bytes otherwise)
    #[serde(default)]
    pub wmode: u8,
}

pub fn body_bytes(seed: u8, len: usize) -> Vec<u8> {
    (0..len).map(|i| (i as u32).wrapping_mul(31).wrapping_add(seed as u32 * 7).wrapping_add((i / 251) as u32) as u8).collect()
}

/// text of exactly `len` bytes for `from_string` (multi-byte when `utf8` and len allows)
pub fn body_text(seed: u8, len: usize, utf8: bool) -> String {
    let mut s = String::with_capacity(len);
    let alphabet: [&str; 6] = ["a", "é", "€", "𝄞", "Z", "ß"];
    let mut i = seed as usize;
    while s.len() < len {
        let c = if utf8 { alphabet[i % alphabet.len()] } else { ["x", "y", "z", "0"][i % 4] };
        if s.len() + c.len() <= len {
            s.push_str(c);
        } else {
            s.push('.');
        }
        i += 1;
    }
    s
}

impl RespCase {
    /// the body the application gives
    pub fn body(&self) -> Vec<u8> {
        match self.ctor {
            Ctor::FromString if !self.with_data => body_text(self.body_seed, self.body_len, self.utf8).into_bytes(),
            Ctor::Empty | Ctor::NewEmpty if !self.with_data => vec![],
            _ => body_bytes(self.body_seed, self.body_len),
        }
    }
    /// the declared length before header ops are applied
    pub fn initial_declared(&self) -> Option<usize> {
        if self.with_data {
            return if self.declared { Some(self.body_len) } else { None };
        }
        match self.ctor {
            Ctor::New => {
                if self.declared {
                    Some(self.body_len)
                } else {
                    None
                }
            }
            Ctor::Empty | Ctor::NewEmpty => Some(0),
            _ => Some(self.body().len()),
        }
    }
}

pub struct RespOut {
    pub bytes: Vec<u8>,
    pub print_err: Option<String>,
    pub getter_data_length: Option<usize>,
    pub getter_headers: Vec<(String, String)>,
    pub getter_status: u16,
    pub t_before: i64,
    pub t_after: i64,
}

// ------------------------------------------------------------------------------------------
// header policy model (C19), from the statement

#[derive(Clone, Debug, PartialEq)]
pub struct PolicyModel {
    /// admissible application-header lists (two when a Content-Type was replaced: the statement
    /// fixes value and multiplicity of the survivor, not its place)
    pub lists: Vec<Vec<(String, String)>>,
    pub declared: Option<usize>,
    pub app_server: bool,
    pub app_date: bool,
}

pub fn policy_model(case: &RespCase) -> PolicyModel {
    let mut ops: Vec<(String, String)> = vec![];
    if case.ctor == Ctor::FromString {
        ops.push(("Content-Type".into(), "text/plain; charset=UTF-8".into()));
    }
    // engine order: constructor (with the Via::Ctor headers, in list order), then the other
    // header operations in list order, then with_data
    for h in case.headers.iter().filter(|h| h.via == Via::Ctor) {
        ops.push((h.name.clone(), h.value.clone()));
    }
    for h in case.headers.iter().filter(|h| h.via != Via::Ctor) {
        ops.push((h.name.clone(), h.value.clone()));
    }
    let mut declared = match case.ctor {
        Ctor::New => {
            if case.declared {
                Some(case.body_len)
            } else {
                None
            }
        }
        Ctor::Empty | Ctor::NewEmpty => Some(0),
        // convenience constructors declare exactly the byte length of the data they were given
        Ctor::FromString => Some(body_text(case.body_seed, case.body_len, case.utf8).len()),
        Ctor::FromData | Ctor::FromFile => Some(case.body_len),
    };
    // fold
    let mut first_pos: Vec<(String, String)> = vec![]; // survivor at the place of the first
    let mut last_pos: Vec<(String, String)> = vec![]; // survivor at the place of the last
    for (n, v) in &ops {
        let lower = n.to_ascii_lowercase();
        match lower.as_str() {
            "connection" | "trailer" | "transfer-encoding" | "upgrade" => {}
            "content-length" => {
                if !v.is_empty() && v.bytes().all(|b| b.is_ascii_digit()) {
                    if let Ok(x) = v.parse::<usize>() {
                        declared = Some(x);
                    }
                }
            }
            "content-type" => {
                if let Some(e) = first_pos.iter_mut().find(|(n, _)| n.eq_ignore_ascii_case("content-type")) {
                    e.1 = v.clone();
                } else {
                    first_pos.push((n.clone(), v.clone()));
                }
                last_pos.retain(|(n, _)| !n.eq_ignore_ascii_case("content-type"));
                last_pos.push((n.clone(), v.clone()));
            }
            _ => {
                first_pos.push((n.clone(), v.clone()));
                last_pos.push((n.clone(), v.clone()));
            }
        }
    }
    if case.with_data {
        declared = if case.declared { Some(case.body_len) } else { None };
    }
    let app_server = first_pos.iter().any(|(n, _)| n.eq_ignore_ascii_case("server"));
    let app_date = first_pos.iter().any(|(n, _)| n.eq_ignore_ascii_case("date"));
    let mut lists = vec![first_pos];
    if lists[0] != last_pos {
        lists.push(last_pos);
    }
    PolicyModel { lists, declared, app_server, app_date }
}

fn names_equal_mod_ct_case(a: &[(String, String)], b: &[(String, String)]) -> bool {
    // the surviving Content-Type may carry the *name* spelling of either supplied header
    a.len() == b.len()
        && a.iter().zip(b.iter()).all(|((an, av), (bn, bv))| {
            av == bv && (an == bn || (an.eq_ignore_ascii_case("content-type") && bn.eq_ignore_ascii_case("content-type")))
        })
}

fn no_body_by_rule(case: &RespCase) -> bool {
    case.head || (100..200).contains(&case.status) || case.status == 204 || case.status == 304
}

// ------------------------------------------------------------------------------------------
// oracles

fn parse_full(case: &RespCase, out: &RespOut, prop: &str) -> Result<Msg, Verdict> {
    if let Some(e) = &out.print_err {
        if e.starts_with("PANIC") {
            let te_big = case.te.as_deref().map(|t| t.split(',').count() > 20).unwrap_or(false);
            return Err(fail(format!("{}/raw_print-panicked{}", prop, if te_big && e.contains("total order") { "/te-sort-total-order" } else { "" }), e.clone()));
        }
        return Err(fail(format!("{}/raw_print-error", prop), format!("raw_print returned Err({})", e)));
    }
    match parse_one(&out.bytes, case.head) {
        Ok(m) => Ok(m),
        Err(ParseErr::Incomplete) => Err(fail(format!("{}/message-incomplete", prop), format!("output is a proper prefix of a message: {:?}", head_preview(&out.bytes)))),
        Err(ParseErr::Malformed(s)) => Err(fail(format!("{}/message-malformed", prop), format!("{}: {:?}", s, head_preview(&out.bytes)))),
    }
}

pub fn head_preview(b: &[u8]) -> String {
    let n = b.len().min(400);
    String::from_utf8_lossy(&b[..n]).to_string()
}

/// C04: one well-formed self-delimiting message carrying exactly the body.
pub fn oracle_c04(case: &RespCase, out: &RespOut) -> Verdict {
    let m = match parse_full(case, out, "C04") {
        Ok(m) => m,
        Err(v) => return v,
    };
    if m.framing == BodyFraming::UntilClose {
        return fail("C04/needs-connection-close", format!("neither chunked nor Content-Length: {:?}", head_preview(&out.bytes)));
    }
    if m.consumed != out.bytes.len() {
        let sig = if no_body_by_rule(case) { "C04/body-bytes-sent-where-forbidden" } else { "C04/trailing-bytes-after-message" };
        return fail(sig, format!("message ends at {} but {} bytes were written; head {:?}", m.consumed, out.bytes.len(), head_preview(&out.bytes[..m.head_len.min(out.bytes.len())])));
    }
    if m.status != case.status {
        return fail("C04/status-differs", format!("sent {} got {}", case.status, m.status));
    }
    if m.version != case.version {
        return fail("C04/version-differs", format!("request {:?} response {:?}", case.version, m.version));
    }
    let expect_body = if no_body_by_rule(case) { vec![] } else { case.body() };
    if m.body != expect_body {
        let at = m.body.iter().zip(expect_body.iter()).position(|(a, b)| a != b).unwrap_or(m.body.len().min(expect_body.len()));
        return fail("C04/body-differs", format!("recovered {} bytes, expected {}; first difference at {}", m.body.len(), expect_body.len(), at));
    }
    if m.header_count("Content-Length") > 0 && m.header_count("Transfer-Encoding") > 0 {
        return fail("C04/both-framing-headers", head_preview(&out.bytes[..m.head_len]));
    }
    // the conforming client of an HTTP/1.0 request is an HTTP/1.0 client: it knows no transfer codings
    if case.version <= (1, 0) && m.header_count("Transfer-Encoding") > 0 {
        return fail("C04/transfer-coding-sent-to-http10-client", head_preview(&out.bytes[..m.head_len]));
    }
    let on_wire = !expect_body.is_empty();
    let mut g = if on_wire { Good::nontrivial() } else { Good::trivial() };
    g = g
        .class(match m.framing {
            BodyFraming::Chunked => "framing:chunked",
            BodyFraming::Length(_) => "framing:length",
            BodyFraming::NoneByRule => "framing:none-by-rule",
            BodyFraming::UntilClose => unreachable!(),
        })
        .class_if(case.head, "HEAD")
        .class_if(case.body_len > 8192, "body>8192")
        .class_if(!case.declared, "undeclared")
        .class_if(case.version == (1, 0), "http/1.0")
        .class_if(case.te.is_some(), "TE-present")
        .class_if(m.chunks >= 2, "chunks>=2");
    Verdict::Pass(g)
}

/// C05: coding choice and the framing headers that go with it.
pub fn oracle_c05(case: &RespCase, out: &RespOut) -> Verdict {
    let m = match parse_full(case, out, "C05") {
        Ok(m) => m,
        Err(v) => return v,
    };
    let pm = policy_model(case);
    let body = case.body();
    let threshold = case.threshold.unwrap_or(32768);
    let n_te = m.header_count("Transfer-Encoding");
    let n_cl = m.header_count("Content-Length");
    if case.upgrade.is_some() {
        if n_te != 0 || n_cl != 0 {
            return fail("C05/upgrade-carries-framing-header", head_preview(&out.bytes[..m.head_len]));
        }
        return Verdict::Pass(Good::nontrivial().class("upgrade"));
    }
    let adm = admissible(case.version, case.status, case.te.as_deref(), pm.declared, threshold);
    let used = if n_te > 0 { Coding::Chunked } else { Coding::Identity };
    if !adm.contains(&used) {
        let why = if case.version <= (1, 0) {
            "version<=1.0"
        } else if case.status < 200 || case.status == 204 {
            "1xx-or-204"
        } else if case.te.is_some() {
            "TE"
        } else {
            "threshold"
        };
        return fail(
            format!("C05/wrong-coding/{}/{:?}-used", why, used),
            format!("admissible {:?}, used {:?}; declared {:?} threshold {} te {:?}", adm, used, pm.declared, threshold, case.te),
        );
    }
    match used {
        Coding::Chunked => {
            if n_cl != 0 {
                return fail("C05/chunked-with-content-length", head_preview(&out.bytes[..m.head_len]));
            }
            if n_te != 1 || !m.header("Transfer-Encoding").unwrap().eq_ignore_ascii_case("chunked") {
                return fail("C05/chunked-header-wrong", head_preview(&out.bytes[..m.head_len]));
            }
            if !no_body_by_rule(case) {
                if m.framing != BodyFraming::Chunked || m.body != body {
                    return fail("C05/chunked-body-not-chunk-encoded", format!("framing {:?} body {} vs {}", m.framing, m.body.len(), body.len()));
                }
            }
        }
        Coding::Identity => {
            if n_te != 0 {
                return fail("C05/identity-with-transfer-encoding", head_preview(&out.bytes[..m.head_len]));
            }
            if n_cl != 1 {
                return fail("C05/identity-content-length-count", format!("{} Content-Length headers: {:?}", n_cl, head_preview(&out.bytes[..m.head_len])));
            }
            let v = m.header("Content-Length").unwrap();
            if v != body.len().to_string() {
                return fail("C05/identity-content-length-value", format!("Content-Length {:?} but body has {} bytes", v, body.len()));
            }
        }
    }
    let g = Good::nontrivial()
        .class(format!("used:{:?}", used))
        .class_if(adm.len() > 1, "open-choice")
        .class_if(case.te.is_some(), "TE-present")
        .class_if(pm.declared == Some(threshold), "len==threshold")
        .class_if(pm.declared.is_none(), "len-unknown");
    Verdict::Pass(g)
}

/// C19: header policy.
pub fn oracle_c19(case: &RespCase, out: &RespOut) -> Verdict {
    let pm = policy_model(case);
    // getters first
    if out.getter_data_length != pm.declared {
        let sig = match case.ctor {
            Ctor::New => "C19/declared-length/content-length-header",
            _ => "C19/declared-length/constructor",
        };
        return fail(sig, format!("data_length() = {:?}, model {:?} (ctor {:?}, body {} bytes)", out.getter_data_length, pm.declared, case.ctor, case.body().len()));
    }
    if out.getter_status != case.status {
        return fail("C19/status-getter", format!("{} vs {}", out.getter_status, case.status));
    }
    if !pm.lists.iter().any(|l| names_equal_mod_ct_case(l, &out.getter_headers)) {
        return fail(
            format!("C19/header-list-getter/{}", policy_diff_kind(&pm.lists[0], &out.getter_headers)),
            format!("headers() = {:?}, model {:?}", out.getter_headers, pm.lists),
        );
    }
    let m = match parse_full(case, out, "C19") {
        Ok(m) => m,
        Err(v) => return v,
    };
    let mut wire: Vec<(String, String)> = m.headers.clone();
    // library-generated framing headers
    wire.retain(|(n, _)| !n.eq_ignore_ascii_case("content-length") && !n.eq_ignore_ascii_case("transfer-encoding"));
    if case.upgrade.is_some() {
        // the switching-protocols response adds its own Connection/Upgrade pair
        let nc = wire.iter().filter(|(n, _)| n.eq_ignore_ascii_case("connection")).count();
        let nu = wire.iter().filter(|(n, _)| n.eq_ignore_ascii_case("upgrade")).count();
        if nc != 1 || nu != 1 {
            return fail("C19/upgrade-pair", format!("{:?}", wire));
        }
        wire.retain(|(n, _)| !n.eq_ignore_ascii_case("connection") && !n.eq_ignore_ascii_case("upgrade"));
    }
    for p in ["connection", "trailer", "upgrade"] {
        if wire.iter().any(|(n, _)| n.eq_ignore_ascii_case(p)) {
            return fail(format!("C19/protected-header-sent/{}", p), format!("{:?}", wire));
        }
    }
    if !pm.app_server {
        let n = wire.iter().filter(|(n, _)| n.eq_ignore_ascii_case("server")).count();
        if n != 1 {
            return fail("C19/auto-server-count", format!("{} Server headers: {:?}", n, wire));
        }
        let i = wire.iter().position(|(n, _)| n.eq_ignore_ascii_case("server")).unwrap();
        if wire[i].1.is_empty() {
            return fail("C19/auto-server-empty", format!("{:?}", wire));
        }
        wire.remove(i);
    }
    if !pm.app_date {
        let n = wire.iter().filter(|(n, _)| n.eq_ignore_ascii_case("date")).count();
        if n != 1 {
            return fail("C19/auto-date-count", format!("{} Date headers: {:?}", n, wire));
        }
        let i = wire.iter().position(|(n, _)| n.eq_ignore_ascii_case("date")).unwrap();
        match crate::date::parse_imf_fixdate(&wire[i].1) {
            Err(e) => return fail("C19/auto-date-invalid", format!("{:?}: {}", wire[i].1, e)),
            Ok(t) => {
                if t < out.t_before - 2 || t > out.t_after + 2 {
                    return fail("C19/auto-date-not-now", format!("{:?} = {} but clock in [{}, {}]", wire[i].1, t, out.t_before, out.t_after));
                }
            }
        }
        wire.remove(i);
    }
    if !pm.lists.iter().any(|l| names_equal_mod_ct_case(l, &wire)) {
        return fail(
            format!("C19/header-list-wire/{}", policy_diff_kind(&pm.lists[0], &wire)),
            format!("application headers on the wire {:?}, model {:?}", wire, pm.lists),
        );
    }
    let nct = wire.iter().filter(|(n, _)| n.eq_ignore_ascii_case("content-type")).count();
    if nct > 1 {
        return fail("C19/content-type-multiple", format!("{:?}", wire));
    }
    // identity: the Content-Length on the wire equals the declared byte length
    if let Some(v) = m.header("Content-Length") {
        if Some(v.to_string()) != pm.declared.map(|d| d.to_string()) && pm.declared.is_some() {
            return fail("C19/content-length-wire-vs-declared", format!("wire {:?}, declared {:?}", v, pm.declared));
        }
    }
    let special = case.headers.iter().any(|h| {
        let l = h.name.to_ascii_lowercase();
        matches!(l.as_str(), "connection" | "trailer" | "transfer-encoding" | "upgrade" | "content-length" | "content-type" | "date" | "server" | "content-encoding")
    });
    let dup = {
        let mut names: Vec<String> = case.headers.iter().map(|h| h.name.to_ascii_lowercase()).collect();
        let n = names.len();
        names.sort();
        names.dedup();
        names.len() != n
    };
    let mut g = if special || dup { Good::nontrivial() } else { Good::trivial() };
    g = g
        .class_if(special, "special-name")
        .class_if(dup, "duplicate-name")
        .class_if(pm.lists.len() > 1, "content-type-replaced")
        .class_if(pm.app_date, "app-date")
        .class_if(pm.app_server, "app-server")
        .class(format!("ctor:{:?}", case.ctor));
    Verdict::Pass(g)
}

fn policy_diff_kind(model: &[(String, String)], got: &[(String, String)]) -> String {
    for p in ["connection", "trailer", "transfer-encoding", "upgrade", "content-length"] {
        if got.iter().any(|(n, _)| n.eq_ignore_ascii_case(p)) {
            return format!("{}-present", p);
        }
    }
    let ct = got.iter().filter(|(n, _)| n.eq_ignore_ascii_case("content-type")).count();
    if ct > 1 {
        return "content-type-multiple".into();
    }
    if got.len() < model.len() {
        return "header-missing".into();
    }
    if got.len() > model.len() {
        return "header-extra".into();
    }
    let mut a: Vec<_> = model.to_vec();
    let mut b: Vec<_> = got.to_vec();
    a.sort();
    b.sort();
    if a == b {
        "order".into()
    } else {
        "value-or-name".into()
    }
}

// ------------------------------------------------------------------------------------------
// generators

pub const LEN_BOUNDARY: &[usize] = &[0, 1, 2, 3, 1023, 1024, 1025, 2047, 2048, 2049, 8191, 8192, 8193, 32767, 32768, 32769];

pub fn len_strategy(max_random: usize) -> BoxedStrategy<usize> {
    prop_oneof![
        4 => proptest::sample::select(LEN_BOUNDARY),
        3 => 0usize..200,
        2 => 0usize..5000,
        1 => 0usize..max_random,
    ]
    .boxed()
}

pub fn token_strategy() -> BoxedStrategy<String> {
    "[A-Za-z][A-Za-z0-9!#$%&'*+.^_`|~-]{0,14}".boxed()
}

/// header values: visible ASCII with inner SP/HT, no leading/trailing whitespace, may be empty
pub fn value_strategy() -> BoxedStrategy<String> {
    prop_oneof![
        1 => Just(String::new()),
        6 => "[!-~]{1,12}",
        3 => "[!-~][ -~\t]{0,30}[!-~]",
    ]
    .boxed()
}

pub const SPECIAL_NAMES: &[&str] = &[
    "Connection", "Trailer", "Transfer-Encoding", "Upgrade", "Content-Length", "Content-Type", "Date", "Server", "Content-Encoding",
];

fn random_case(s: String, mask: u32) -> String {
    s.chars()
        .enumerate()
        .map(|(i, c)| if mask >> (i % 32) & 1 == 1 { c.to_ascii_uppercase() } else { c.to_ascii_lowercase() })
        .collect()
}

pub fn te_values() -> Vec<Option<String>> {
    let mut v: Vec<Option<String>> = vec![None];
    for s in [
        "", "chunked", "Chunked", "CHUNKED", "identity", "Identity", "trailers", "gzip", "deflate", "chunked, identity", "identity, chunked",
        "chunked;q=0", "chunked;q=0.0", "chunked;q=0.000", "identity;q=0", "chunked;q=0.001", "identity;q=0.001", "chunked;q=1", "chunked;q=1.000",
        "chunked;q=0.5, identity;q=0.6", "chunked;q=0.6, identity;q=0.5", "identity;q=0.5, chunked;q=0.6", "identity;q=0.6, chunked;q=0.5",
        "chunked;q=0.5, identity;q=0.5", "identity;q=0.5, chunked;q=0.5", "chunked;q=0, identity;q=0", "chunked;q=0, identity", "identity;q=0, chunked",
        "gzip, chunked", "gzip;q=1, chunked;q=0.1", "trailers, chunked;q=0.3", "gzip, deflate", "gzip;q=0.9, identity;q=0.1", "trailers, identity",
        "chunked ; q=0.5 , identity ; q=0.7", "chunked;q=0.7 ,identity;q=0.5", " chunked", "chunked ", "\tidentity", ",chunked", "chunked,", ",,identity,,",
        "chunked;foo=bar", "chunked;foo=bar;q=0", "identity;foo=bar;q=0.2, chunked;q=0.1", "chunkedx", "xchunked", "chunk", "identity2",
        "gzip;q=0.5, trailers;q=0.2", "identity;q=0.999, chunked;q=0.998", "identity;q=0.1, chunked;q=0.09", "chunked;q=0.10, identity;q=0.9",
        "chunked;q=0.3, gzip;q=0.8, identity;q=0.2", "deflate;q=1.0, identity;q=0.0, chunked;q=0.0",
        // weight syntax the statement does not define (oracle admits every reading)
        "chunked;q=", "chunked;q=abc", "chunked;q=1.5, identity", "identity;q=-1, chunked", "chunked;q =0.5, identity;q=0.4", "chunked;Q=0, identity;q=0.5",
        "identity;q=0.5;q=0.9, chunked;q=0.7",
    ] {
        v.push(Some(s.to_string()));
    }
    v
}

fn coding_token() -> BoxedStrategy<String> {
    prop_oneof![
        3 => (Just("chunked".to_string()), any::<u32>()).prop_map(|(s, m)| if m & 3 == 0 { random_case(s, m >> 2) } else { s }),
        3 => (Just("identity".to_string()), any::<u32>()).prop_map(|(s, m)| if m & 3 == 0 { random_case(s, m >> 2) } else { s }),
        1 => Just("trailers".to_string()),
        1 => Just("gzip".to_string()),
        1 => Just("deflate".to_string()),
        1 => token_strategy(),
    ]
    .boxed()
}

fn q_strategy() -> BoxedStrategy<String> {
    prop_oneof![
        6 => Just(String::new()),
        8 => (0u32..=1000).prop_map(|q| if q == 1000 { ";q=1".to_string() } else { format!(";q=0.{:03}", q) }),
        3 => (0u32..=9).prop_map(|q| format!(";q=0.{}", q)),
        2 => Just(";q=0".to_string()),
        1 => Just(";q=1.0".to_string()),
        1 => Just(";q=0.0".to_string()),
        1 => proptest::sample::select(vec![";q=", ";q=abc", ";q=1.5", ";q=-1", ";q =0.5", ";Q=0.5", ";q=NaN", ";q=inf", ";q=1e3", ";q=0.5;q=0.1"]).prop_map(|s| s.to_string()),
        1 => Just(";foo=bar".to_string()),
        // degenerate parameters: empty, one character, no value, whitespace only
        1 => proptest::sample::select(vec![";", ";a", "; ", ";;", ";=", ";q", ";\t", "; ;q=0.5", ";x;q=0.3"]).prop_map(|s| s.to_string()),
    ]
    .boxed()
}

pub fn te_list_strategy(max_elems: usize) -> BoxedStrategy<String> {
    proptest::collection::vec((coding_token(), q_strategy(), 0u8..4, 0u8..4), 1..=max_elems)
        .prop_map(|v| {
            v.into_iter()
                .map(|(c, q, l, r)| {
                    let l = match l {
                        0 => " ",
                        1 => "",
                        2 => "",
                        _ => "\t",
                    };
                    let r = if r == 0 { " " } else { "" };
                    format!("{}{}{}{}", l, c, q, r)
                })
                .collect::<Vec<_>>()
                .join(",")
        })
        .boxed()
}

pub fn te_strategy() -> BoxedStrategy<Option<String>> {
    prop_oneof![
        5 => Just(None),
        3 => proptest::sample::select(te_values()),
        4 => te_list_strategy(6).prop_map(Some),
    ]
    .boxed()
}

fn threshold_strategy(len: usize) -> BoxedStrategy<Option<usize>> {
    prop_oneof![
        4 => Just(None),
        1 => Just(Some(0usize)),
        1 => Just(Some(1usize)),
        1 => Just(Some(len.saturating_sub(1))),
        2 => Just(Some(len)),
        1 => Just(Some(len + 1)),
        1 => Just(Some(usize::MAX)),
        1 => Just(Some(7usize)),
        1 => Just(Some(32768usize)),
    ]
    .boxed()
}

pub fn status_strategy() -> BoxedStrategy<u16> {
    prop_oneof![
        6 => proptest::sample::select(vec![200u16, 201, 206, 301, 302, 400, 404, 418, 500, 503]),
        3 => proptest::sample::select(vec![100u16, 101, 102, 103, 199, 204, 205, 304]),
        2 => proptest::sample::select(vec![299u16, 600, 999, 305, 451, 511]),
        2 => 100u16..=999,
    ]
    .boxed()
}

fn pieces_strategy() -> BoxedStrategy<Vec<usize>> {
    prop_oneof![
        3 => Just(vec![]),
        1 => Just(vec![1usize]),
        2 => proptest::collection::vec(1usize..20000, 1..5),
        1 => proptest::collection::vec(prop_oneof![Just(1usize), Just(8192usize), Just(8193usize), Just(1024usize)], 1..4),
    ]
    .boxed()
}

/// application headers for C04/C05: arbitrary names incl. the protected/special ones, but a
/// supplied Content-Length always equals the real length (the property's domain: "declared
/// correctly or not at all")
fn app_headers(len: usize, max: usize, special_weight: u32) -> BoxedStrategy<Vec<HdrOp>> {
    let name = prop_oneof![
        special_weight => (proptest::sample::select(SPECIAL_NAMES), any::<u32>()).prop_map(|(s, m)| if m & 1 == 0 { s.to_string() } else { random_case(s.to_string(), m >> 1) }),
        4 => token_strategy(),
    ];
    let via = prop_oneof![Just(Via::Ctor), Just(Via::Add), Just(Via::With)];
    proptest::collection::vec((via, name, value_strategy(), any::<u8>()), 0..=max)
        .prop_map(move |v| {
            v.into_iter()
                .map(|(via, name, value, r)| {
                    let value = if name.eq_ignore_ascii_case("content-length") {
                        // mostly the real length; sometimes a value that is no length at all
                        // (never sent, and it does not change the declared length)
                        if r % 5 == 4 {
                            ["abc", "", "-1", "18446744073709551616", "5 bytes", "0x10", "1.0"][(r as usize / 5) % 7].to_string()
                        } else {
                            len.to_string()
                        }
                    } else if name.eq_ignore_ascii_case("date") && r % 2 == 0 {
                        "Sun, 06 Nov 1994 08:49:37 GMT".to_string()
                    } else if name.eq_ignore_ascii_case("content-type") && r % 2 == 0 {
                        ["text/html", "application/json", "text/plain; charset=UTF-8"][(r as usize / 2) % 3].to_string()
                    } else {
                        value
                    };
                    HdrOp { via, name, value }
                })
                .collect()
        })
        .boxed()
}

/// generator for C04 (well-formedness) — upgrade never set
pub fn c04_strategy(max_len: usize) -> BoxedStrategy<RespCase> {
    len_strategy(max_len)
        .prop_flat_map(|len| {
            (
                (Just(len), status_strategy(), app_headers(len, 8, 3), any::<u8>(), proptest::bool::weighted(0.7)),
                (threshold_strategy(len), prop_oneof![3 => Just((1u8, 1u8)), 1 => Just((1u8, 0u8))], proptest::bool::weighted(0.15), te_strategy(), pieces_strategy()),
                (prop_oneof![5 => Just(Ctor::New), 1 => Just(Ctor::FromData), 1 => Just(Ctor::FromString), 1 => Just(Ctor::Empty)], proptest::bool::weighted(0.15), prop_oneof![1 => Just(0u8), 2 => any::<u8>()]),
            )
        })
        .prop_map(|((len, status, headers, body_seed, declared), (threshold, version, head, te, pieces), (ctor, with_data, plan))| RespCase {
            body_len: if matches!(ctor, Ctor::Empty) && !with_data { 0 } else { len },
            // (a supplied Content-Length would be a wrong declaration for an empty body, and
            // with_data replaces whatever length was declared before it)
            headers: if matches!(ctor, Ctor::Empty) && !with_data { headers.into_iter().filter(|h| !h.name.eq_ignore_ascii_case("content-length")).collect() } else { headers },
            ctor,
            status,
            body_seed,
            declared,
            with_data,
            plan,
            wmode: if body_seed % 3 == 0 { (body_seed / 3) % 6 } else { 0 },
            threshold,
            version,
            head,
            te,
            pieces,
            upgrade: None,
            utf8: body_seed % 2 == 0,
        })
        .boxed()
}

/// random part of C05 (the exhaustive product is built by `c05_product`)
pub fn c05_strategy() -> BoxedStrategy<RespCase> {
    let len = prop_oneof![3 => proptest::sample::select(LEN_BOUNDARY), 2 => 0usize..100, 1 => 0usize..40000];
    len.prop_flat_map(|len| {
        (
            (Just(len), proptest::sample::select(vec![100u16, 101, 199, 200, 204, 304, 404, 500]), any::<u8>(), proptest::bool::weighted(0.6), prop_oneof![1 => Just(0u8), 2 => any::<u8>()]),
            (
                threshold_strategy(len),
                prop_oneof![6 => Just((1u8, 1u8)), 2 => Just((1u8, 0u8)), 1 => Just((0u8, 9u8))],
                proptest::bool::weighted(0.1),
                prop_oneof![1 => Just(None), 1 => proptest::sample::select(te_values()), 8 => te_list_strategy(6).prop_map(Some), 1 => te_list_strategy(40).prop_map(Some)],
            ),
            app_headers(len, 2, 1),
            proptest::option::weighted(0.05, Just("websocket".to_string())),
        )
    })
    .prop_map(|((len, status, body_seed, declared, plan), (threshold, version, head, te), headers, upgrade)| RespCase {
        plan,
        wmode: 0,
        ctor: if body_seed % 7 == 3 { Ctor::FromData } else { Ctor::New },
        status,
        headers,
        body_len: len,
        body_seed,
        declared,
        // (now and then the body is replaced through with_data, with or without a declared length)
        with_data: body_seed % 7 >= 3 && body_seed % 7 <= 4,
        threshold,
        version,
        head,
        te,
        pieces: vec![],
        upgrade,
        utf8: false,
    })
    .boxed()
}

/// the exhaustive product named in the quantifier of C05
pub fn c05_product() -> Vec<RespCase> {
    let mut out = vec![];
    let tes = te_values();
    for version in [(0u8, 9u8), (1, 0), (1, 1)] {
        for status in [100u16, 101, 199, 200, 204, 304, 404, 500] {
            for threshold in [Some(0usize), Some(1), Some(7), None, Some(usize::MAX)] {
                let thr = threshold.unwrap_or(32768);
                // length classes: unknown, 0, thr-1, thr, thr+1 (capped so bodies stay small)
                let mut lens: Vec<Option<usize>> = vec![None, Some(0)];
                if thr != usize::MAX {
                    for l in [thr.saturating_sub(1), thr, thr + 1] {
                        if !lens.contains(&Some(l)) {
                            lens.push(Some(l));
                        }
                    }
                } else {
                    lens.push(Some(40000));
                }
                for len in lens {
                    for te in &tes {
                        for head in [false, true] {
                            for upgrade in [None, Some("websocket".to_string())] {
                                let body_len = len.unwrap_or(5);
                                out.push(RespCase {
                                    // the builder orders rotate through the product
                                    plan: (out.len() % 61) as u8,
                                    wmode: 0,
                                    ctor: Ctor::New,
                                    status,
                                    headers: vec![],
                                    body_len,
                                    body_seed: 3,
                                    declared: len.is_some(),
                                    with_data: false,
                                    threshold,
                                    version,
                                    head,
                                    te: te.clone(),
                                    pieces: vec![],
                                    upgrade: upgrade.clone(),
                                    utf8: false,
                                });
                            }
                        }
                    }
                }
            }
        }
    }
    out
}

/// generator for C19 (header policy)
pub fn c19_strategy() -> BoxedStrategy<RespCase> {
    let len = prop_oneof![4 => 0usize..300, 1 => proptest::sample::select(LEN_BOUNDARY)];
    len.prop_flat_map(|len| {
        (
            (Just(len), status_strategy(), app_headers(len, 12, 6), any::<u8>(), proptest::bool::weighted(0.6), proptest::bool::weighted(0.15)),
            prop_oneof![
                4 => Just(Ctor::New),
                2 => Just(Ctor::FromString),
                2 => Just(Ctor::FromData),
                1 => Just(Ctor::Empty),
                1 => Just(Ctor::NewEmpty),
                1 => Just(Ctor::FromFile),
            ],
            (prop_oneof![3 => Just((1u8, 1u8)), 1 => Just((1u8, 0u8))], proptest::bool::weighted(0.1), proptest::option::weighted(0.05, Just("websocket".to_string())), prop_oneof![1 => Just(0u8), 2 => any::<u8>()]),
        )
    })
    .prop_map(|((len, status, headers, body_seed, declared, with_data), ctor, (version, head, upgrade, plan))| {
        let empty = matches!(ctor, Ctor::Empty | Ctor::NewEmpty);
        let body_len = if empty && !with_data { 0 } else { len };
        // keep "declared correctly": a supplied Content-Length carries the final body length
        let headers: Vec<HdrOp> = headers
            .into_iter()
            .map(|mut h| {
                if h.name.eq_ignore_ascii_case("content-length") && !h.value.is_empty() && h.value.bytes().all(|b| b.is_ascii_digit()) && h.value.len() < 19 {
                    // (an empty response that answers a HEAD request declares the length of what a GET
                    // would have been sent: a template kept, and cloned, for such answers)
                    h.value = if empty && !with_data && head { len.to_string() } else { body_len.to_string() };
                }
                if ctor != Ctor::New && h.via == Via::Ctor {
                    h.via = Via::Add;
                }
                h
            })
            .collect();
        RespCase {
            plan,
            // (the header block, too, goes out through writers that take part of what they are offered)
            wmode: if body_seed % 3 == 1 { (body_seed / 3) % 6 } else { 0 },
            ctor,
            status,
            headers,
            body_len,
            body_seed,
            declared,
            with_data,
            threshold: None,
            version,
            head,
            te: None,
            pieces: vec![],
            upgrade,
            utf8: body_seed % 2 == 0,
        }
    })
    .boxed()
}
