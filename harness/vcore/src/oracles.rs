//! Per-property oracles over (case, model, observation); engine-independent.

use crate::conv::*;
use crate::runner::{Good, Verdict};
use crate::wire::Framing;

macro_rules! tri {
    ($e:expr) => {
        if let Err(v) = $e {
            return v;
        }
    };
}

pub fn c02_oracle(case: &ConvCase, exp: &Expected, obs: &Observation, nonce: &str) -> Verdict {
    if let Some(v) = engine_trouble(obs) {
        return v;
    }
    tri!(prefix("C02", comp_delivery_sequence(case, exp, obs)));
    tri!(prefix("C02", comp_heads(case, obs, nonce)));
    let nh: usize = case.conv.reqs.iter().map(|r| r.headers.len()).sum();
    let long_head = case.conv.reqs.iter().any(|r| r.headers.iter().map(|h| h.name.len() + h.value.len() + 4).sum::<usize>() + r.path.len() > 1024);
    let mut g = if nh > 0 { Good::nontrivial() } else { Good::trivial() };
    g = g
        .class(format!("transport:{:?}", case.transport))
        .class_if(long_head, "head>1024")
        .class_if(case.conv.reqs.len() > 1, "pipelined")
        .class_if(case.conv.reqs.iter().any(|r| r.headers.iter().any(|h| h.value.is_empty())), "empty-value")
        .class_if(case.conv.reqs.iter().any(|r| r.headers.iter().any(|h| h.value.contains(':'))), "colon-in-value")
        .class_if(case.conv.reqs.iter().any(|r| r.headers.len() > 16), "headers>16")
        .class_if(
            case.conv.reqs.iter().any(|r| {
                let mut names: Vec<String> = r.headers.iter().map(|h| h.name.to_ascii_lowercase()).collect();
                let n = names.len();
                names.sort();
                names.dedup();
                names.len() != n
            }),
            "duplicate-header",
        )
        .class_if(case.conv.reqs.iter().any(|r| !["GET", "POST", "PUT", "DELETE", "OPTIONS", "PATCH", "TRACE", "CONNECT", "HEAD"].contains(&r.method.as_str())), "extension-method");
    Verdict::Pass(g)
}

pub fn c03_oracle(case: &ConvCase, exp: &Expected, obs: &Observation, _nonce: &str) -> Verdict {
    if let Some(v) = engine_trouble(obs) {
        return v;
    }
    // the body-bearing request must have been delivered to say anything
    if obs.delivered.first().and_then(|d| d.id) != Some(0) {
        tri!(prefix("C03", comp_delivery_sequence(case, exp, obs)));
    }
    tri!(prefix("C03", comp_bodies(case, obs)));
    let rq = &case.conv.reqs[0];
    // (the followers arrive intact whatever part of the body was read: the rest is discarded by the
    // library - C09's clause, checked here as well because a body reader that gets the boundary
    // wrong shows in what follows)
    let read_to_eof = true;
    if read_to_eof {
        // "never returns bytes of a later pipelined message": the sentinels arrive intact
        tri!(prefix("C03", comp_delivery_sequence(case, exp, obs)));
    }
    let blen = rq.body_len();
    let nreads = obs.delivered.first().map(|d| d.reads.len()).unwrap_or(0);
    let nchunks = match &rq.framing {
        Framing::Chunked { chunks, .. } => chunks.len(),
        _ => 0,
    };
    let nontrivial = blen >= 1 && (nreads >= 3 || nchunks >= 2 || blen > 1024);
    let mut g = if nontrivial { Good::nontrivial() } else { Good::trivial() };
    g = g
        .class(format!("framing:{}", framing_name(&rq.framing)))
        .class(format!("transport:{:?}", case.transport))
        .class_if(blen > 1024, "body>1024")
        .class_if(blen == 1024 || blen == 1025, "body@1024-edge")
        .class_if(nchunks >= 2, "chunks>=2")
        .class_if(case.conv.reqs.len() > 1, "follower")
        .class_if(rq.header("Content-Length").is_some() && nchunks > 0, "CL+TE")
        .class_if(read_to_eof, "read-to-eof");
    Verdict::Pass(g)
}

pub fn mal_class(m: &crate::wire::Malform) -> String {
    use crate::wire::{Malform::*, Place};
    match m {
        ReqLineFields(3) => "request-line-without-target".to_string(),
        ReqLineFields(n) => format!("request-line-{}-fields", n),
        VersionToken(v) if v == "HTTP/2.0" || v == "HTTP/3.0" => "version-above-1.1".to_string(),
        VersionToken(_) => "unrecognised-version-token".to_string(),
        HeaderNoColon { .. } => "header-without-colon".to_string(),
        NonAscii { place: Place::RequestLine, .. } | NonAscii { place: Place::RequestLineEnd, .. } => "non-ascii-request-line".to_string(),
        NonAscii { place: Place::HeaderName(_), .. } => "non-ascii-header-name".to_string(),
        NonAscii { place: Place::HeaderValue(_), .. } => "non-ascii-header-value".to_string(),
        Expect(_) => "unsupported-expect".to_string(),
        WsBeforeName { at, .. } => if *at == 0 { "ws-before-name/first-line".to_string() } else { "ws-before-name/obs-fold".to_string() },
        WsInName { .. } => "ws-in-name".to_string(),
        WsBeforeColon { .. } => "ws-before-colon".to_string(),
        ContentLengthLinesDisagree { .. } => "content-length-lines-disagree".to_string(),
        BadContentLength { value, .. } => {
            let class = if value.is_empty() || value.trim().is_empty() {
                "empty"
            } else if value.starts_with('+') {
                "plus-sign"
            } else if value.starts_with('-') {
                "minus-sign"
            } else if value.bytes().all(|b| b.is_ascii_digit()) {
                "overflow"
            } else if value.contains(',') || value.contains(' ') {
                "list"
            } else {
                "non-decimal"
            };
            format!("content-length-value:{}", class)
        }
    }
}

fn offender(case: &ConvCase) -> Option<(usize, String)> {
    case.conv.reqs.iter().enumerate().find_map(|(i, r)| r.mal.as_ref().map(|m| (i, mal_class(m))))
}

/// re-labels a component failure with the class of the offending request
fn with_class(prop: &str, class: &str, c: Comp) -> Result<(), Verdict> {
    c.map_err(|(k, d)| crate::runner::fail(format!("{}/{}/{}", prop, class, k), d))
}

pub fn c09_oracle(case: &ConvCase, exp: &Expected, obs: &Observation, nonce: &str) -> Verdict {
    if let Some(v) = engine_trouble(obs) {
        return v;
    }
    // the first request whose body the application leaves (partly) unread
    let mut class = "all-consumed".to_string();
    let mut unread = false;
    for (i, r) in case.conv.reqs.iter().enumerate() {
        let len = r.body_len();
        if len == 0 {
            continue;
        }
        let consumed_all_with_eof = matches!(case.prog(i).read, ReadPlan::ToEof { .. });
        if !consumed_all_with_eof {
            unread = true;
            class = format!("unread-body/{}", match &r.framing { Framing::Chunked { .. } => "chunked", Framing::Length { n } if *n <= 1024 => "length-buffered", _ => "length-streamed" });
            break;
        }
    }
    if let Some(s) = &obs.stall {
        return crate::runner::fail(format!("C09/{}/stall", class), s.clone());
    }
    tri!(with_class("C09", &class, comp_delivery_sequence(case, exp, obs)));
    tri!(with_class("C09", &class, comp_heads(case, obs, nonce)));
    let view = client_view(&obs.client, exp);
    tri!(with_class("C09", &class, comp_client_stream(exp, obs, &view, exp.msgs.len(), false)));
    let mut g = if unread { Good::nontrivial() } else { Good::trivial() };
    g = g.class(class).class(format!("transport:{:?}", case.transport)).class_if(case.conv.reqs.len() > 2, "reqs>2");
    for (i, _) in case.conv.reqs.iter().enumerate() {
        match case.prog(i).finish {
            Finish::Drop => g = g.class("finish:drop"),
            Finish::Writer { .. } => g = g.class("finish:writer"),
            _ => {}
        }
    }
    Verdict::Pass(g)
}

/// C10, C12, C16 share the shape: who is delivered, what the client sees, whether the stream ends
pub fn stream_oracle(prop: &str, case: &ConvCase, exp: &Expected, obs: &Observation) -> Result<(), Verdict> {
    if let Some(v) = engine_trouble(obs) {
        return Err(v);
    }
    let class = offender(case).map(|o| o.1).unwrap_or_else(|| "valid".to_string());
    with_class(prop, &class, comp_no_panics(obs))?;
    if let Some(s) = &obs.stall {
        return Err(crate::runner::fail(format!("{}/{}/stall", prop, class), s.clone()));
    }
    with_class(prop, &class, comp_delivery_sequence(case, exp, obs))?;
    let view = client_view(&obs.client, exp);
    with_class(prop, &class, comp_client_stream(exp, obs, &view, exp.msgs.len(), false))?;
    if let Some(inc) = &obs.script_incomplete {
        return Err(crate::runner::fail(format!("{}/{}/connection-ended-early", prop, class), inc.clone()));
    }
    // a server that closes while unread client bytes sit in its receive buffer makes the kernel
    // answer with a reset instead of an orderly end: for the client that is "closed" all the same
    if exp.ends_after.is_some() && !obs.client_eof && obs.client_err.is_none() {
        return Err(crate::runner::fail(format!("{}/{}/no-end-of-stream", prop, class), "the model says the server closes, the client saw no end-of-stream".to_string()));
    }
    Ok(())
}

pub fn c10_oracle(case: &ConvCase, exp: &Expected, obs: &Observation) -> Verdict {
    tri!(stream_oracle("C10", case, exp, obs));
    let (at, class) = offender(case).unwrap();
    let mut g = if at > 0 { Good::nontrivial() } else { Good::trivial() };
    g = g.class(class).class(format!("transport:{:?}", case.transport)).class_if(at + 1 < case.conv.reqs.len(), "requests-after-offender");
    Verdict::Pass(g)
}

pub fn c12_oracle(case: &ConvCase, exp: &Expected, obs: &Observation) -> Verdict {
    tri!(stream_oracle("C12", case, exp, obs));
    let bytes_follow = match exp.ends_after {
        Some(i) => i + 1 < case.conv.reqs.len() || !case.conv.trailing.is_empty(),
        None => false,
    };
    let long_lived = case.conv.reqs.len() >= 30;
    let mut g = if bytes_follow || long_lived { Good::nontrivial() } else { Good::trivial() };
    g = g.class_if(long_lived, "long-lived-connection");
    g = g
        .class(if exp.ends_after.is_some() { "ends" } else { "persistent" })
        .class(format!("transport:{:?}", case.transport))
        .class_if(case.conv.reqs.iter().any(|r| r.version == "HTTP/1.0"), "http/1.0")
        .class_if(case.script.iter().filter(|s| matches!(s, Step::Send { .. })).count() > 1, "multi-phase");
    Verdict::Pass(g)
}

pub fn c16_oracle(case: &ConvCase, exp: &Expected, obs: &Observation) -> Verdict {
    tri!(stream_oracle("C16", case, exp, obs));
    let (at, class) = offender(case).unwrap();
    Verdict::Pass(Good::nontrivial().class(class).class(format!("transport:{:?}", case.transport)).class_if(at > 0, "offender-not-first"))
}

pub fn c18_oracle(case: &ConvCase, exp: &Expected, obs: &Observation) -> Verdict {
    if let Some(v) = engine_trouble(obs) {
        return v;
    }
    let rq = &case.conv.reqs[0];
    let class = if rq.expects_continue() { if case.prog(0).touches_body() { "expect/body-asked" } else { "expect/body-not-asked" } } else { "no-expect" };
    if let Some(s) = &obs.stall {
        return crate::runner::fail(format!("C18/{}/stall", class), s.clone());
    }
    tri!(with_class("C18", class, comp_delivery_sequence(case, exp, obs)));
    let view = client_view(&obs.client, exp);
    tri!(with_class("C18", class, comp_client_stream(exp, obs, &view, exp.msgs.len(), true)));
    // an interim response must be a 100
    // (the 101 of an accepted protocol switch is that request's final response)
    let switches = exp.msgs.iter().any(|e| e.status == 101);
    for m in &view.msgs {
        if m.status < 200 && m.status != 100 && !(m.status == 101 && switches) {
            return crate::runner::fail(format!("C18/{}/interim-not-100", class), format!("interim status {}", m.status));
        }
    }
    tri!(with_class("C18", class, comp_bodies(case, obs)));
    if let Some(inc) = &obs.script_incomplete {
        return crate::runner::fail(format!("C18/{}/connection-ended-early", class), inc.clone());
    }
    // the 100 must have reached the client before it sent any body byte (the scripted client
    // only sends the body after a message arrived, so: the first message is there at head_end)
    if rq.expects_continue() && case.prog(0).touches_body() && case.script.iter().any(|s| matches!(s, Step::AwaitMsgs(_))) {
        let head_end = crate::wire::render(&case.conv).ranges[0].head_end;
        if obs.sent_when_msg.first().map(|s| *s > head_end).unwrap_or(true) {
            return crate::runner::fail(format!("C18/{}/interim-late", class), format!("{:?}", obs.sent_when_msg));
        }
    }
    let mut g = if rq.expects_continue() { Good::nontrivial() } else { Good::trivial() };
    g = g.class(class).class(format!("transport:{:?}", case.transport)).class(format!("framing:{}", framing_name(&rq.framing))).class_if(rq.body_len() > 1024, "body>1024");
    Verdict::Pass(g)
}

pub fn c06_oracle(case: &ConvCase, exp: &Expected, obs: &Observation) -> Verdict {
    if let Some(v) = engine_trouble(obs) {
        return v;
    }
    if let Some(s) = &obs.stall {
        let fin = case.conv.reqs.iter().enumerate().map(|(i, _)| match case.prog(i).finish { Finish::Drop | Finish::Panic => "dropped", _ => "answered" }).next().unwrap_or("answered");
        return crate::runner::fail(format!("C06/{}-request-waits-for-unsent-body/stall", fin), s.clone());
    }
    tri!(prefix("C06", comp_delivery_sequence(case, exp, obs)));
    let view = client_view(&obs.client, exp);
    tri!(prefix("C06", comp_client_stream(exp, obs, &view, exp.msgs.len(), false)));
    if !obs.client_eof {
        return crate::runner::fail("C06/no-end-of-stream", "client half-closed but the stream did not end".to_string());
    }
    let n = case.conv.reqs.len();
    let drop_not_last = (0..n.saturating_sub(1)).any(|i| matches!(case.prog(i).finish, Finish::Drop | Finish::Panic));
    let mut g = if n >= 2 && drop_not_last { Good::nontrivial() } else { Good::trivial() };
    for i in 0..n {
        g = g.class(format!("finish:{}", match case.prog(i).finish { Finish::Respond { .. } => "respond", Finish::Writer { .. } => "writer", Finish::Upgrade { .. } => "upgrade", Finish::Drop => "drop", Finish::Panic => "panic", Finish::WriterUnused => "writer-unused", Finish::WriterPanic => "writer-panic", Finish::RespondFailing { .. } => "respond-failing" }));
    }
    g = g.class(format!("transport:{:?}", case.transport));
    Verdict::Pass(g)
}


/// C04 through a connection: each response is one well-formed self-delimiting message with
/// exactly the body (none for HEAD / 1xx / 204 / 304), the next response follows directly.
pub fn c04_conn_oracle(case: &ConvCase, exp: &Expected, obs: &Observation) -> Verdict {
    if let Some(v) = engine_trouble(obs) {
        return v;
    }
    if let Some(s) = &obs.stall {
        return crate::runner::fail("C04/conn/stall", s.clone());
    }
    // (a response with a 1xx status given to respond() is an interim response to the client:
    // such cases say nothing about the final message and are skipped)
    if case.progs.iter().any(|p| matches!(p.finish, Finish::Respond { status, .. } if status < 200)) {
        return Verdict::Pass(Good::trivial().class("skipped:1xx-as-final"));
    }
    tri!(prefix("C04", comp_delivery_sequence(case, exp, obs)));
    let view = client_view(&obs.client, exp);
    tri!(prefix("C04/conn", comp_client_stream(exp, obs, &view, exp.msgs.len(), false)));
    for (k, (_, m)) in view.finals.iter().enumerate() {
        let rq = &case.conv.reqs[exp.msgs[k].req_idx];
        if rq.version == "HTTP/1.0" && m.header_count("Transfer-Encoding") > 0 {
            return crate::runner::fail("C04/conn/transfer-coding-sent-to-http10-client", format!("response #{} to an HTTP/1.0 request: {:?}", k, m.headers));
        }
    }
    let on_wire = view.finals.iter().any(|(_, m)| !m.body.is_empty());
    let mut g = if on_wire { Good::nontrivial() } else { Good::trivial() };
    g = g
        .class_if(case.conv.reqs.iter().any(|r| r.is_head()), "HEAD")
        .class_if(case.conv.reqs.iter().any(|r| r.header("TE").is_some()), "TE-present")
        .class_if(view.msgs.iter().any(|m| m.chunks > 0), "chunked-on-wire")
        .class_if(case.conv.reqs.iter().any(|r| r.version == "HTTP/1.0"), "http/1.0")
        .class(format!("transport:{:?}", case.transport));
    Verdict::Pass(g)
}

/// C06, "no request is answered twice": a `respond()` that fails half-way (its body source
/// errors or panics) must not be followed by the automatic 500 for the same request.
pub fn c06_failing_oracle(case: &ConvCase, exp: &Expected, obs: &Observation) -> Verdict {
    if let Some(v) = engine_trouble(obs) {
        return v;
    }
    if let Some(s) = &obs.stall {
        return crate::runner::fail("C06/respond-failing/stall", s.clone());
    }
    let _ = exp;
    // response heads on the wire: status lines at the start or after a CRLF
    let out = &obs.client;
    let mut heads = 0;
    let mut i = 0;
    while i + 9 <= out.len() {
        if &out[i..i + 7] == b"HTTP/1." && (i == 0 || out[i - 1] == b'\n' || true) && out[i + 8] == b' ' {
            heads += 1;
        }
        i += 1;
    }
    let delivered = obs.delivered.len();
    if heads > delivered {
        return crate::runner::fail(
            "C06/respond-failing/answered-twice",
            format!("{} requests delivered, {} response heads on the wire: {:?}", delivered, heads, crate::resp::head_preview(out)),
        );
    }
    Verdict::Pass(Good::nontrivial().class(format!("delivered={}", delivered)))
}
