//! Per-engine reports (written by the harness binaries, merged into evidence by `/verif/check`).

use serde::{Deserialize, Serialize};
use std::collections::BTreeMap;

#[derive(Clone, Debug, Serialize, Deserialize)]
pub struct FailureRec {
    pub property: String,
    pub part: String,
    pub engine: String,
    pub signature: String,
    pub detail: String,
    pub seed: u64,
    pub case: serde_json::Value,
}

#[derive(Clone, Debug, Serialize, Deserialize)]
pub struct EngineReport {
    pub property: String,
    pub part: String,
    pub engine: String,
    pub evaluations: u64,
    /// fingerprints of distinct non-trivial cases (merged as a set across parts)
    pub nontrivial_fps: Vec<u64>,
    pub classes: BTreeMap<String, u64>,
    pub samples: Vec<serde_json::Value>,
    pub failures: Vec<FailureRec>,
    pub inconclusive: Vec<String>,
    pub known_hits: BTreeMap<String, u64>,
    pub exhaustive: bool,
    pub wall_s: f64,
    pub notes: Vec<String>,
}

#[derive(Clone, Debug, Serialize, Deserialize)]
pub struct KnownFinding {
    pub property: String,
    pub signature: String,
    pub status: String,
    #[serde(default)]
    pub commit: Option<String>,
    pub what: String,
}

pub fn verif_root() -> String {
    std::env::var("VERIF_ROOT").unwrap_or_else(|_| "/verif".to_string())
}

/// signatures of findings with status "known" for this property
pub fn load_known(property: &str) -> Vec<String> {
    let path = format!("{}/known_findings.json", verif_root());
    let Ok(text) = std::fs::read_to_string(&path) else { return vec![] };
    let Ok(v) = serde_json::from_str::<serde_json::Value>(&text) else { return vec![] };
    let mut out = vec![];
    if let Some(arr) = v.get("findings").and_then(|a| a.as_array()) {
        for f in arr {
            if let Ok(k) = serde_json::from_value::<KnownFinding>(f.clone()) {
                if k.property == property && k.status == "known" {
                    out.push(k.signature);
                }
            }
        }
    }
    out
}

/// Output of one harness binary invocation: a list of part reports.
#[derive(Clone, Debug, Serialize, Deserialize, Default)]
pub struct BinReport {
    pub parts: Vec<EngineReport>,
    pub rule: String,
    pub assumptions: Vec<String>,
}

impl BinReport {
    pub fn write(&self, path: &str) {
        if let Some(dir) = std::path::Path::new(path).parent() {
            let _ = std::fs::create_dir_all(dir);
        }
        std::fs::write(path, serde_json::to_vec_pretty(self).unwrap()).expect("write report");
    }
}
