//! Reference decision function for C05, written from the property statement (not the code).

use serde::{Deserialize, Serialize};

#[derive(Clone, Copy, Debug, PartialEq, Eq, Hash, Serialize, Deserialize, PartialOrd, Ord)]
pub enum Coding {
    Identity,
    Chunked,
}

/// qvalue = ( "0" [ "." 0*3DIGIT ] ) / ( "1" [ "." 0*3("0") ] ), returned in thousandths
pub fn parse_qvalue(s: &str) -> Option<u32> {
    let b = s.as_bytes();
    if b.is_empty() {
        return None;
    }
    let (int, frac) = match s.find('.') {
        Some(i) => (&s[..i], Some(&s[i + 1..])),
        None => (s, None),
    };
    if int != "0" && int != "1" {
        return None;
    }
    let mut v = if int == "1" { 1000 } else { 0 };
    if let Some(f) = frac {
        if f.len() > 3 || !f.bytes().all(|c| c.is_ascii_digit()) {
            return None;
        }
        let mut scale = 100;
        let mut fv = 0;
        for c in f.bytes() {
            fv += (c - b'0') as u32 * scale;
            scale /= 10;
        }
        if int == "1" && fv != 0 {
            return None;
        }
        v += fv;
    }
    Some(v)
}

#[derive(Clone, Debug, PartialEq)]
pub struct TeElem {
    pub coding: String,
    /// Some(q in thousandths) when the weight is absent (1000) or a valid qvalue; None when the
    /// element carries something that looks like a weight but is not a valid one (then the
    /// statement does not say how it is to be read)
    pub q: Option<u32>,
}

pub fn parse_te(value: &str) -> Vec<TeElem> {
    let mut out = vec![];
    for elem in value.split(',') {
        let elem = elem.trim_matches(|c| c == ' ' || c == '\t');
        if elem.is_empty() {
            continue;
        }
        let mut parts = elem.split(';');
        let coding = parts.next().unwrap().trim_matches(|c| c == ' ' || c == '\t').to_string();
        let mut q: Option<u32> = Some(1000);
        let mut seen_q = 0;
        for p in parts {
            let p_trim = p.trim_matches(|c| c == ' ' || c == '\t');
            let (name, val) = match p_trim.find('=') {
                Some(i) => (&p_trim[..i], Some(&p_trim[i + 1..])),
                None => (p_trim, None),
            };
            let name_t = name.trim_matches(|c| c == ' ' || c == '\t');
            if name_t.eq_ignore_ascii_case("q") {
                seen_q += 1;
                let clean = name == "q";
                match val {
                    Some(v) if clean && parse_qvalue(v).is_some() && seen_q == 1 => q = parse_qvalue(v),
                    _ => q = None,
                }
                if seen_q > 1 {
                    q = None;
                }
            }
        }
        out.push(TeElem { coding, q });
    }
    out
}

fn supported(c: &str) -> Option<Coding> {
    if c.eq_ignore_ascii_case("chunked") {
        Some(Coding::Chunked)
    } else if c.eq_ignore_ascii_case("identity") {
        Some(Coding::Identity)
    } else {
        None
    }
}

pub fn default_rule(len: Option<usize>, threshold: usize) -> Coding {
    match len {
        None => Coding::Chunked,
        Some(l) if l >= threshold => Coding::Chunked,
        _ => Coding::Identity,
    }
}

/// The set of codings the statement admits.  (More than one only where the statement leaves the
/// choice open: equal highest weights, or a supported element whose weight is not a valid qvalue.)
pub fn admissible(version: (u8, u8), status: u16, te: Option<&str>, len: Option<usize>, threshold: usize) -> Vec<Coding> {
    if version <= (1, 0) {
        return vec![Coding::Identity];
    }
    if status < 200 || status == 204 {
        return vec![Coding::Identity];
    }
    let dflt = default_rule(len, threshold);
    let Some(te) = te else { return vec![dflt] };
    let elems = parse_te(te);
    let sup: Vec<(Coding, Option<u32>)> = elems.iter().filter_map(|e| supported(&e.coding).map(|c| (c, e.q))).collect();
    if sup.is_empty() {
        return vec![dflt];
    }
    if sup.iter().any(|(_, q)| q.is_none()) {
        // open: any supported coding named, or the default
        let mut v: Vec<Coding> = sup.iter().map(|(c, _)| *c).collect();
        v.push(dflt);
        v.sort();
        v.dedup();
        return v;
    }
    let best = sup.iter().filter(|(_, q)| q.unwrap() > 0).map(|(_, q)| q.unwrap()).max();
    match best {
        None => vec![dflt],
        Some(b) => {
            let mut v: Vec<Coding> = sup.iter().filter(|(_, q)| q.unwrap() == b).map(|(c, _)| *c).collect();
            v.sort();
            v.dedup();
            v
        }
    }
}

#[cfg(test)]
mod tests {
    use super::*;
    #[test]
    fn qvalues() {
        assert_eq!(parse_qvalue("0"), Some(0));
        assert_eq!(parse_qvalue("0.5"), Some(500));
        assert_eq!(parse_qvalue("0.123"), Some(123));
        assert_eq!(parse_qvalue("1.000"), Some(1000));
        assert_eq!(parse_qvalue("1."), Some(1000));
        assert_eq!(parse_qvalue("1.5"), None);
        assert_eq!(parse_qvalue("0.1234"), None);
        assert_eq!(parse_qvalue("NaN"), None);
        assert_eq!(parse_qvalue(""), None);
    }
    #[test]
    fn decisions() {
        use Coding::*;
        assert_eq!(admissible((1, 0), 200, Some("chunked"), None, 32768), vec![Identity]);
        assert_eq!(admissible((1, 1), 204, Some("chunked"), None, 32768), vec![Identity]);
        assert_eq!(admissible((1, 1), 200, Some("chunked"), Some(1), 32768), vec![Chunked]);
        assert_eq!(admissible((1, 1), 200, Some("identity;q=0.5, chunked;q=0.6"), Some(1), 32768), vec![Chunked]);
        assert_eq!(admissible((1, 1), 200, Some("identity;q=0.5, chunked;q=0.5"), Some(1), 32768), vec![Identity, Chunked]);
        assert_eq!(admissible((1, 1), 200, Some("chunked;q=0"), Some(1), 32768), vec![Identity]);
        assert_eq!(admissible((1, 1), 200, Some("trailers, gzip;q=NaN"), None, 32768), vec![Chunked]);
        assert_eq!(admissible((1, 1), 200, None, Some(32768), 32768), vec![Chunked]);
        assert_eq!(admissible((1, 1), 200, None, Some(32767), 32768), vec![Identity]);
    }
}
