//! Abstract client conversations and their exact wire rendering (DESIGN.md 3.1).

use serde::{Deserialize, Serialize};

pub const NONCE_PLACEHOLDER: &[u8; 8] = b"@NONCE@@";

#[derive(Clone, Debug, PartialEq, Eq, Serialize, Deserialize)]
pub struct Hdr {
    pub name: String,
    /// optional whitespace between the colon and the value
    pub pre: String,
    pub value: String,
    /// optional whitespace after the value
    pub post: String,
}

impl Hdr {
    pub fn new(name: &str, value: &str) -> Hdr {
        Hdr { name: name.to_string(), pre: " ".to_string(), value: value.to_string(), post: String::new() }
    }
}

#[derive(Clone, Debug, PartialEq, Eq, Serialize, Deserialize)]
pub struct ChunkSpec {
    pub len: usize,
    pub upper: bool,
    pub zeros: u8,
    pub ext: Option<String>,
}

#[derive(Clone, Debug, PartialEq, Eq, Serialize, Deserialize)]
pub enum Framing {
    /// no Content-Length, no Transfer-Encoding: empty body
    None,
    /// a Content-Length header (placed in `headers` by the generator) designates `n` bytes
    Length { n: usize },
    /// a Transfer-Encoding header designates the chunked coding
    Chunked { chunks: Vec<ChunkSpec>, last_zeros: u8, last_ext: Option<String> },
    /// `Connection: upgrade`: everything that follows on the connection (`rest` bytes) is the body
    Upgrade { rest: usize },
}

#[derive(Clone, Debug, PartialEq, Eq, Serialize, Deserialize)]
pub enum Place {
    RequestLine,
    HeaderName(usize),
    HeaderValue(usize),
    /// directly behind the version token of the request line
    RequestLineEnd,
}

/// One deliberate syntax violation (C10 / C16).
#[derive(Clone, Debug, PartialEq, Eq, Serialize, Deserialize)]
pub enum Malform {
    /// request line with 0 (empty line), 1 or 2 fields
    ReqLineFields(u8),
    /// replaces the version token
    VersionToken(String),
    /// a header line without a colon inserted before header `at`
    HeaderNoColon { at: usize, text: String },
    /// a byte >= 0x80 inserted, followed by `tail` (continuation bytes: together they may form a
    /// well-formed multi-byte UTF-8 sequence)
    NonAscii {
        place: Place,
        byte: u8,
        #[serde(default)]
        tail: Vec<u8>,
    },
    /// an `Expect` header with an unsupported value appended
    Expect(String),
    /// whitespace before the name of header `at` (at = 0: first header line; at > 0: obs-fold)
    WsBeforeName { at: usize, ws: String },
    /// whitespace inside the name of header `at` (after its first character)
    WsInName { at: usize, ws: String },
    /// whitespace between the name of header `at` and the colon
    WsBeforeColon { at: usize, ws: String },
    /// the Content-Length header's value replaced (header index `at`)
    BadContentLength { at: usize, value: String },
    /// header `at` is a further Content-Length line whose (valid) value differs from another one's
    ContentLengthLinesDisagree { at: usize },
}

#[derive(Clone, Debug, PartialEq, Eq, Serialize, Deserialize)]
pub struct ReqSpec {
    pub id: u32,
    pub method: String,
    /// target after the `/@NONCE@@/r<id>` marker
    pub path: String,
    /// text before the marker (absolute-form targets: "http://host:8080")
    #[serde(default)]
    pub target_prefix: String,
    /// version token, e.g. "HTTP/1.1"
    pub version: String,
    /// complete ordered header list, including framing / Connection / Expect headers
    pub headers: Vec<Hdr>,
    pub framing: Framing,
    pub mal: Option<Malform>,
    /// explicit body bytes (used when the body must look like a request: smuggling layouts);
    /// otherwise the id/position pattern
    pub body_override: Option<Vec<u8>>,
}

pub fn body_pattern(id: u32, len: usize) -> Vec<u8> {
    (0..len).map(|i| ((i as u32).wrapping_mul(131).wrapping_add(id.wrapping_mul(17)).wrapping_add((i as u32 >> 8).wrapping_mul(7)).wrapping_add(1)) as u8).collect()
}

impl ReqSpec {
    pub fn simple(id: u32) -> ReqSpec {
        ReqSpec { id, method: "GET".into(), path: String::new(), target_prefix: String::new(), version: "HTTP/1.1".into(), headers: vec![Hdr::new("Host", "h")], framing: Framing::None, mal: None, body_override: None }
    }

    pub fn target(&self) -> String {
        format!("{}/{}/r{}{}", self.target_prefix, std::str::from_utf8(NONCE_PLACEHOLDER).unwrap(), self.id, self.path)
    }

    /// length of the designated body
    pub fn body_len(&self) -> usize {
        match &self.framing {
            Framing::None => 0,
            Framing::Length { n } => *n,
            Framing::Chunked { chunks, .. } => chunks.iter().map(|c| c.len).sum(),
            Framing::Upgrade { rest } => *rest,
        }
    }

    /// the designated body bytes
    pub fn body(&self) -> Vec<u8> {
        if let Some(b) = &self.body_override {
            return b.clone();
        }
        body_pattern(self.id, self.body_len())
    }

    pub fn header(&self, name: &str) -> Option<&Hdr> {
        self.headers.iter().find(|h| h.name.eq_ignore_ascii_case(name))
    }

    pub fn version_tuple(&self) -> Option<(u8, u8)> {
        match self.version.as_str() {
            "HTTP/1.0" => Some((1, 0)),
            "HTTP/1.1" => Some((1, 1)),
            "HTTP/0.9" => Some((0, 9)),
            "HTTP/2.0" => Some((2, 0)),
            "HTTP/3.0" => Some((3, 0)),
            _ => None,
        }
    }

    pub fn is_head(&self) -> bool {
        self.method == "HEAD"
    }

    pub fn expects_continue(&self) -> bool {
        self.header("Expect").map(|h| h.value.eq_ignore_ascii_case("100-continue")).unwrap_or(false)
    }
}

#[derive(Clone, Debug, PartialEq, Eq, Serialize, Deserialize, Default)]
pub struct Conversation {
    pub reqs: Vec<ReqSpec>,
    /// raw bytes sent after the last request (garbage, or part of a further request)
    pub trailing: Vec<u8>,
}

#[derive(Clone, Copy, Debug, PartialEq, Eq, Serialize, Deserialize)]
pub enum Region {
    RequestLine,
    HeaderName,
    Colon,
    HeaderOws,
    HeaderValue,
    Crlf,
    ChunkSizeLine,
    ChunkData,
    ChunkCrlf,
    Body,
    Trailing,
}

#[derive(Clone, Debug, Default)]
pub struct ReqRange {
    pub start: usize,
    /// first byte after the blank line that ends the head
    pub head_end: usize,
    /// first byte after the body as laid out on the wire
    pub end: usize,
}

#[derive(Clone, Debug, Default)]
pub struct Rendered {
    pub bytes: Vec<u8>,
    pub ranges: Vec<ReqRange>,
    pub nonce_offsets: Vec<usize>,
    /// (start offset, region) runs, sorted by offset
    pub regions: Vec<(usize, Region)>,
}

impl Rendered {
    pub fn with_nonce(&self, nonce: &[u8; 8]) -> Vec<u8> {
        let mut b = self.bytes.clone();
        for &o in &self.nonce_offsets {
            b[o..o + 8].copy_from_slice(nonce);
        }
        b
    }
    pub fn region_at(&self, off: usize) -> Region {
        let i = match self.regions.binary_search_by(|(s, _)| s.cmp(&off)) {
            Ok(i) => i,
            Err(0) => 0,
            Err(i) => i - 1,
        };
        self.regions.get(i).map(|r| r.1).unwrap_or(Region::Trailing)
    }
}

struct Out {
    r: Rendered,
}

impl Out {
    fn put(&mut self, region: Region, bytes: &[u8]) {
        if bytes.is_empty() {
            return;
        }
        if self.r.regions.last().map(|l| l.1) != Some(region) {
            self.r.regions.push((self.r.bytes.len(), region));
        }
        self.r.bytes.extend_from_slice(bytes);
    }
}

fn render_header(out: &mut Out, h: &Hdr, idx: usize, mal: &Option<Malform>) {
    let mut name = h.name.clone().into_bytes();
    let mut value = h.value.clone().into_bytes();
    let mut before_colon: Vec<u8> = vec![];
    match mal {
        Some(Malform::WsBeforeName { at, ws }) if *at == idx => out.put(Region::HeaderOws, ws.as_bytes()),
        Some(Malform::WsInName { at, ws }) if *at == idx => {
            let cut = 1.min(name.len());
            let mut n2 = name[..cut].to_vec();
            n2.extend_from_slice(ws.as_bytes());
            n2.extend_from_slice(&name[cut..]);
            name = n2;
        }
        Some(Malform::WsBeforeColon { at, ws }) if *at == idx => before_colon = ws.clone().into_bytes(),
        Some(Malform::BadContentLength { at, value: v }) if *at == idx => value = v.clone().into_bytes(),
        Some(Malform::NonAscii { place: Place::HeaderName(at), byte, tail }) if *at == idx => {
            let cut = 1.min(name.len());
            for (k, b) in std::iter::once(byte).chain(tail.iter()).enumerate() {
                name.insert(cut + k, *b);
            }
        }
        Some(Malform::NonAscii { place: Place::HeaderValue(at), byte, tail }) if *at == idx => {
            let cut = value.len() / 2;
            for (k, b) in std::iter::once(byte).chain(tail.iter()).enumerate() {
                value.insert(cut + k, *b);
            }
        }
        _ => {}
    }
    out.put(Region::HeaderName, &name);
    out.put(Region::HeaderOws, &before_colon);
    out.put(Region::Colon, b":");
    out.put(Region::HeaderOws, h.pre.as_bytes());
    out.put(Region::HeaderValue, &value);
    out.put(Region::HeaderOws, h.post.as_bytes());
    out.put(Region::Crlf, b"\r\n");
}

pub fn render_chunked(body: &[u8], chunks: &[ChunkSpec], last_zeros: u8, last_ext: &Option<String>, mut put: impl FnMut(Region, &[u8])) {
    let mut off = 0;
    for c in chunks {
        let mut line = "0".repeat(c.zeros as usize);
        if c.upper {
            line.push_str(&format!("{:X}", c.len));
        } else {
            line.push_str(&format!("{:x}", c.len));
        }
        if let Some(e) = &c.ext {
            line.push(';');
            line.push_str(e);
        }
        line.push_str("\r\n");
        put(Region::ChunkSizeLine, line.as_bytes());
        put(Region::ChunkData, &body[off..off + c.len]);
        put(Region::ChunkCrlf, b"\r\n");
        off += c.len;
    }
    let mut line = "0".repeat(1 + last_zeros as usize);
    if let Some(e) = last_ext {
        line.push(';');
        line.push_str(e);
    }
    line.push_str("\r\n\r\n");
    put(Region::ChunkSizeLine, line.as_bytes());
}

pub fn render(conv: &Conversation) -> Rendered {
    let mut out = Out { r: Rendered::default() };
    for rq in &conv.reqs {
        let start = out.r.bytes.len();
        // request line
        let target = rq.target();
        let mut line: Vec<u8> = vec![];
        let version = match &rq.mal {
            Some(Malform::VersionToken(v)) => v.clone(),
            _ => rq.version.clone(),
        };
        match &rq.mal {
            Some(Malform::ReqLineFields(0)) => {}
            Some(Malform::ReqLineFields(1)) => line.extend_from_slice(rq.method.as_bytes()),
            // two fields: method and target (2) or method and version, the target missing (3)
            Some(Malform::ReqLineFields(3)) => {
                line.extend_from_slice(rq.method.as_bytes());
                line.push(b' ');
                line.extend_from_slice(version.as_bytes());
            }
            Some(Malform::ReqLineFields(_)) => {
                line.extend_from_slice(rq.method.as_bytes());
                line.push(b' ');
                out.r.nonce_offsets.push(start + line.len() + 1 + rq.target_prefix.len());
                line.extend_from_slice(target.as_bytes());
            }
            _ => {
                line.extend_from_slice(rq.method.as_bytes());
                line.push(b' ');
                out.r.nonce_offsets.push(start + line.len() + 1 + rq.target_prefix.len());
                line.extend_from_slice(target.as_bytes());
                line.push(b' ');
                line.extend_from_slice(version.as_bytes());
            }
        }
        if let Some(Malform::NonAscii { place: Place::RequestLine, byte, tail }) = &rq.mal {
            // inside the path part, after the id marker, so the nonce offset stays valid
            let pos = line.len().saturating_sub(version.len() + 1);
            for (k, b) in std::iter::once(byte).chain(tail.iter()).enumerate() {
                line.insert(pos + k, *b);
            }
        }
        if let Some(Malform::NonAscii { place: Place::RequestLineEnd, byte, tail }) = &rq.mal {
            line.push(*byte);
            line.extend_from_slice(tail);
        }
        out.put(Region::RequestLine, &line);
        out.put(Region::Crlf, b"\r\n");
        for (i, h) in rq.headers.iter().enumerate() {
            if let Some(Malform::HeaderNoColon { at, text }) = &rq.mal {
                if *at == i {
                    out.put(Region::HeaderName, text.as_bytes());
                    out.put(Region::Crlf, b"\r\n");
                }
            }
            render_header(&mut out, h, i, &rq.mal);
        }
        if let Some(Malform::HeaderNoColon { at, text }) = &rq.mal {
            if *at >= rq.headers.len() {
                out.put(Region::HeaderName, text.as_bytes());
                out.put(Region::Crlf, b"\r\n");
            }
        }
        if let Some(Malform::Expect(v)) = &rq.mal {
            render_header(&mut out, &Hdr::new("Expect", v), usize::MAX, &None);
        }
        out.put(Region::Crlf, b"\r\n");
        let head_end = out.r.bytes.len();
        let body = rq.body();
        match &rq.framing {
            Framing::None => {}
            Framing::Length { .. } | Framing::Upgrade { .. } => out.put(Region::Body, &body),
            Framing::Chunked { chunks, last_zeros, last_ext } => {
                render_chunked(&body, chunks, *last_zeros, last_ext, |r, b| out.put(r, b));
            }
        }
        out.r.ranges.push(ReqRange { start, head_end, end: out.r.bytes.len() });
    }
    out.put(Region::Trailing, &conv.trailing);
    out.r
}

#[cfg(test)]
mod tests {
    use super::*;
    #[test]
    fn renders() {
        let mut r = ReqSpec::simple(3);
        r.headers.push(Hdr::new("Transfer-Encoding", "chunked"));
        r.framing = Framing::Chunked { chunks: vec![ChunkSpec { len: 3, upper: false, zeros: 1, ext: None }, ChunkSpec { len: 10, upper: true, zeros: 0, ext: Some("x=y".into()) }], last_zeros: 0, last_ext: None };
        let conv = Conversation { reqs: vec![r], trailing: vec![] };
        let rd = render(&conv);
        let s = String::from_utf8_lossy(&rd.bytes).to_string();
        assert!(s.starts_with("GET /@NONCE@@/r3 HTTP/1.1\r\nHost: h\r\nTransfer-Encoding: chunked\r\n\r\n03\r\n"));
        assert!(s.contains("\r\nA;x=y\r\n"));
        assert!(s.ends_with("\r\n0\r\n\r\n"));
        assert_eq!(rd.nonce_offsets, vec![5]);
        assert_eq!(&rd.with_nonce(b"12345678")[4..14], b"/12345678/");
        assert_eq!(rd.region_at(0), Region::RequestLine);
        assert_eq!(rd.region_at(rd.ranges[0].head_end), Region::ChunkSizeLine);
    }
}
