//! Generic parallel proptest driver shared by every engine.
//!
//! A *check part* is `(strategy, test)`; the driver runs it on W worker threads, each with its
//! own `TestRunner` whose seed is derived from (VERIF_SEED, part name, worker index), counts
//! what was generated, and on the first failure lets proptest shrink and records the minimal
//! case.  All randomness comes from proptest; the driver itself never consults a clock for
//! anything but the wall-time figure in the report.

use crate::report::{EngineReport, FailureRec};
use proptest::strategy::Strategy;
use proptest::test_runner::{Config, RngSeed, TestCaseError, TestError, TestRunner};
use serde::Serialize;
use std::collections::{BTreeMap, HashSet};
use std::fmt::Debug;
use std::sync::atomic::{AtomicBool, AtomicU64, Ordering};
use std::sync::Mutex;
use std::time::Instant;

#[derive(Clone, Debug, Default)]
pub struct Good {
    /// `Some(k)` when the case is non-trivial by the property's rule; `k` is mixed into the
    /// fingerprint (use 0 when the case itself is the fingerprint).
    pub nontrivial: Option<u64>,
    /// class labels for the histogram in the evidence
    pub classes: Vec<String>,
    /// executions performed inside this case beyond the first (sweeps over split / cut points)
    pub extra_evals: u64,
}

impl Good {
    pub fn trivial() -> Good {
        Good::default()
    }
    pub fn nontrivial() -> Good {
        Good { nontrivial: Some(0), classes: vec![], extra_evals: 0 }
    }
    pub fn class(mut self, c: impl Into<String>) -> Good {
        self.classes.push(c.into());
        self
    }
    pub fn class_if(mut self, cond: bool, c: &str) -> Good {
        if cond {
            self.classes.push(c.to_string());
        }
        self
    }
}

#[derive(Clone, Debug)]
pub struct Bad {
    /// root-cause signature, e.g. `C09/unread-chunked-body/follower-misparsed`
    pub signature: String,
    pub detail: String,
}

#[derive(Clone, Debug)]
pub enum Verdict {
    Pass(Good),
    Fail(Bad),
    /// infrastructure trouble or a watchdog in an engine that cannot prove a hang
    Inconclusive(String),
}

pub fn fail(signature: impl Into<String>, detail: impl Into<String>) -> Verdict {
    Verdict::Fail(Bad { signature: signature.into(), detail: detail.into() })
}

#[derive(Clone, Debug)]
pub struct RunCfg {
    pub property: String,
    pub part: String,
    pub engine: String,
    pub seed: u64,
    pub workers: usize,
    pub cases: u64,
    pub max_shrink_iters: u32,
    pub known: Vec<String>,
    pub strict: bool,
    pub max_samples: usize,
}

/// cases finished so far in this process (watchdogs look at it)
pub static PROGRESS: AtomicU64 = AtomicU64::new(0);

pub fn fnv(s: &[u8]) -> u64 {
    let mut h: u64 = 0xcbf29ce484222325;
    for b in s {
        h ^= *b as u64;
        h = h.wrapping_mul(0x100000001b3);
    }
    h
}

pub fn derive_seed(seed: u64, part: &str, worker: usize) -> u64 {
    let mut s = format!("{}#{}#{}", seed, part, worker).into_bytes();
    s.extend_from_slice(&seed.to_le_bytes());
    fnv(&s)
}

struct Shared {
    evaluations: AtomicU64,
    stop: AtomicBool,
    acc: Mutex<Acc>,
}

#[derive(Default)]
struct Acc {
    nontrivial: HashSet<u64>,
    classes: BTreeMap<String, u64>,
    samples: Vec<serde_json::Value>,
    failures: Vec<FailureRec>,
    inconclusive: Vec<String>,
    known_hits: BTreeMap<String, u64>,
}

/// Crash journal (`VERIF_JOURNAL_DIR`): before a case is evaluated it is written, as a replay
/// record, to `<dir>/<part>.<worker>.json`.  When the process under test brings the whole
/// process down (abort, segmentation fault) the driver re-runs the binary with the journal on
/// and replays each worker's last case in a process of its own to find the one that does it.
fn journal<T: Serialize>(dir: &Option<String>, cfg: &RunCfg, worker: usize, case: &T) {
    if let Some(d) = dir {
        let rec = serde_json::json!({
            "property": cfg.property, "part": cfg.part, "engine": cfg.engine,
            "signature": "", "detail": "", "seed": cfg.seed,
            "case": serde_json::to_value(case).unwrap_or(serde_json::Value::Null),
        });
        let _ = std::fs::write(format!("{}/{}.{}.json", d, cfg.part, worker), rec.to_string());
    }
}

/// Runs one part.  `mk_state(worker)` builds the per-worker mutable state (a server, a shuttle
/// runner, …); `test` must be a pure function of (code under test, case) as far as the engine
/// allows.
pub fn run_part<T, S, W, MS, MW, F>(cfg: &RunCfg, mk_strategy: MS, mk_state: MW, test: F) -> EngineReport
where
    T: Debug + Serialize,
    S: Strategy<Value = T>,
    MS: Fn() -> S + Sync,
    MW: Fn(usize) -> W + Sync,
    F: Fn(&mut W, &T) -> Verdict + Sync,
{
    let t0 = Instant::now();
    let shared = Shared { evaluations: AtomicU64::new(0), stop: AtomicBool::new(false), acc: Mutex::new(Acc::default()) };
    let workers = cfg.workers.max(1);
    let per = (cfg.cases + workers as u64 - 1) / workers as u64;
    std::thread::scope(|scope| {
        for w in 0..workers {
            let shared = &shared;
            let mk_strategy = &mk_strategy;
            let mk_state = &mk_state;
            let test = &test;
            let cfg = cfg.clone();
            std::thread::Builder::new()
                .name(format!("vw-{}-{}", cfg.part, w))
                .stack_size(16 << 20)
                .spawn_scoped(scope, move || {
                    let mut state = mk_state(w);
                    let pcfg = Config {
                        cases: per as u32,
                        failure_persistence: None,
                        rng_seed: RngSeed::Fixed(derive_seed(cfg.seed, &cfg.part, w)),
                        max_shrink_iters: cfg.max_shrink_iters,
                        max_global_rejects: 1 << 20,
                        ..Config::default()
                    };
                    let mut runner = TestRunner::new(pcfg);
                    let strategy = mk_strategy();
                    let local_cell = std::cell::RefCell::new(Acc::default());
                    let failed_once = std::cell::Cell::new(false);
                    let first_failure = std::cell::RefCell::new(String::new());
                    let n_local = std::cell::Cell::new(0u64);
                    let state_cell = std::cell::RefCell::new(&mut state);
                    let journal_dir = std::env::var("VERIF_JOURNAL_DIR").ok();
                    let res = runner.run(&strategy, |case| {
                        if !failed_once.get() && shared.stop.load(Ordering::Relaxed) {
                            return Ok(());
                        }
                        journal(&journal_dir, &cfg, w, &case);
                        let v = test(&mut **state_cell.borrow_mut(), &case);
                        PROGRESS.fetch_add(1, Ordering::Relaxed);
                        let mut local = local_cell.borrow_mut();
                        if failed_once.get() {
                            // shrinking: only the verdict matters
                            return match v {
                                Verdict::Fail(b) if cfg.strict || !cfg.known.contains(&b.signature) => {
                                    Err(TestCaseError::fail(b.signature))
                                }
                                _ => Ok(()),
                            };
                        }
                        n_local.set(n_local.get() + 1);
                        match v {
                            Verdict::Pass(g) => {
                                n_local.set(n_local.get() + g.extra_evals);
                                for c in &g.classes {
                                    *local.classes.entry(c.clone()).or_insert(0) += 1;
                                }
                                if let Some(k) = g.nontrivial {
                                    let mut bytes = format!("{:?}", case).into_bytes();
                                    bytes.extend_from_slice(&k.to_le_bytes());
                                    let fp = fnv(&bytes);
                                    let n_samples = local.samples.len();
                                    if local.nontrivial.insert(fp) && n_samples < cfg.max_samples {
                                        if let Ok(j) = serde_json::to_value(&case) {
                                            local.samples.push(j);
                                        }
                                    }
                                }
                                Ok(())
                            }
                            Verdict::Inconclusive(m) => {
                                if local.inconclusive.len() < 5 {
                                    local.inconclusive.push(m);
                                }
                                *local.classes.entry("INCONCLUSIVE".into()).or_insert(0) += 1;
                                // a watchdog costs many seconds per case: do not pile them up
                                shared.stop.store(true, Ordering::Relaxed);
                                Ok(())
                            }
                            Verdict::Fail(b) => {
                                if !cfg.strict && cfg.known.contains(&b.signature) {
                                    *local.known_hits.entry(b.signature).or_insert(0) += 1;
                                    Ok(())
                                } else {
                                    failed_once.set(true);
                                    shared.stop.store(true, Ordering::Relaxed);
                                    *first_failure.borrow_mut() = format!("{} :: {}", b.signature, b.detail.chars().take(300).collect::<String>());
                                    Err(TestCaseError::fail(b.signature))
                                }
                            }
                        }
                    });
                    let mut local = local_cell.into_inner();
                    let n_local = n_local.get();
                    if let Err(e) = res {
                        match e {
                            TestError::Fail(_reason, minimal) => {
                                // re-run the minimal case once more to capture its own signature/detail
                                let mut v = test(&mut **state_cell.borrow_mut(), &minimal);
                                // a failure observed through process-wide state (a panic on some
                                // library thread while several workers were running) may have been
                                // attributed to the wrong case: give it two more chances, then
                                // report it as unreproducible (inconclusive), never as a violation
                                for _ in 0..2 {
                                    if matches!(v, Verdict::Fail(_)) {
                                        break;
                                    }
                                    v = test(&mut **state_cell.borrow_mut(), &minimal);
                                }
                                let (signature, detail) = match v {
                                    Verdict::Fail(b) => (b.signature, b.detail),
                                    other => {
                                        local.inconclusive.push(format!("a failure was observed ({}) but the shrunk case passes when re-run alone (attribution across workers?): {:?}", first_failure.borrow(), other));
                                        (String::new(), String::new())
                                    }
                                };
                                if !signature.is_empty() {
                                local.failures.push(FailureRec {
                                    property: cfg.property.clone(),
                                    part: cfg.part.clone(),
                                    engine: cfg.engine.clone(),
                                    signature,
                                    detail,
                                    seed: cfg.seed,
                                    case: serde_json::to_value(&minimal).unwrap_or(serde_json::Value::Null),
                                });
                                }
                            }
                            TestError::Abort(reason) => {
                                local.inconclusive.push(format!("proptest aborted: {}", reason));
                            }
                        }
                    }
                    shared.evaluations.fetch_add(n_local, Ordering::Relaxed);
                    let mut acc = shared.acc.lock().unwrap();
                    acc.nontrivial.extend(local.nontrivial);
                    for (k, v) in local.classes {
                        *acc.classes.entry(k).or_insert(0) += v;
                    }
                    for s in local.samples {
                        if acc.samples.len() < cfg.max_samples {
                            acc.samples.push(s);
                        }
                    }
                    acc.failures.extend(local.failures);
                    acc.inconclusive.extend(local.inconclusive);
                    for (k, v) in local.known_hits {
                        *acc.known_hits.entry(k).or_insert(0) += v;
                    }
                })
                .expect("spawn worker");
        }
    });
    let acc = shared.acc.into_inner().unwrap();
    EngineReport {
        property: cfg.property.clone(),
        part: cfg.part.clone(),
        engine: cfg.engine.clone(),
        evaluations: shared.evaluations.load(Ordering::Relaxed),
        nontrivial_fps: acc.nontrivial.into_iter().collect(),
        classes: acc.classes,
        samples: acc.samples,
        failures: acc.failures,
        inconclusive: acc.inconclusive,
        known_hits: acc.known_hits,
        exhaustive: false,
        wall_s: t0.elapsed().as_secs_f64(),
        notes: vec![],
    }
}

/// Runs an explicit list of cases (exhaustive products, regression corpora, replays) through the
/// same accounting.  No shrinking: each failing case is reported as is (first few).
pub fn run_list<T, W, MW, F>(cfg: &RunCfg, cases: &[T], mk_state: MW, test: F) -> EngineReport
where
    T: Debug + Serialize + Sync,
    MW: Fn(usize) -> W + Sync,
    F: Fn(&mut W, &T) -> Verdict + Sync,
{
    let t0 = Instant::now();
    let workers = cfg.workers.max(1).min(cases.len().max(1));
    let acc = Mutex::new(Acc::default());
    let evals = AtomicU64::new(0);
    let next = AtomicU64::new(0);
    std::thread::scope(|scope| {
        for w in 0..workers {
            let acc = &acc;
            let evals = &evals;
            let next = &next;
            let mk_state = &mk_state;
            let test = &test;
            let cfg = cfg.clone();
            std::thread::Builder::new()
                .stack_size(16 << 20)
                .spawn_scoped(scope, move || {
                    let mut state = mk_state(w);
                    let mut local = Acc::default();
                    let journal_dir = std::env::var("VERIF_JOURNAL_DIR").ok();
                    loop {
                        let i = next.fetch_add(64, Ordering::Relaxed) as usize;
                        if i >= cases.len() {
                            break;
                        }
                        for case in &cases[i..(i + 64).min(cases.len())] {
                            evals.fetch_add(1, Ordering::Relaxed);
                            journal(&journal_dir, &cfg, w, case);
                            match test(&mut state, case) {
                                Verdict::Pass(g) => {
                                    evals.fetch_add(g.extra_evals, Ordering::Relaxed);
                                    for c in &g.classes {
                                        *local.classes.entry(c.clone()).or_insert(0) += 1;
                                    }
                                    if let Some(k) = g.nontrivial {
                                        let mut bytes = format!("{:?}", case).into_bytes();
                                        bytes.extend_from_slice(&k.to_le_bytes());
                                        if local.nontrivial.insert(fnv(&bytes)) && local.samples.len() < cfg.max_samples {
                                            if let Ok(j) = serde_json::to_value(case) {
                                                local.samples.push(j);
                                            }
                                        }
                                    }
                                }
                                Verdict::Inconclusive(m) => {
                                    if local.inconclusive.len() < 5 {
                                        local.inconclusive.push(m);
                                    }
                                }
                                Verdict::Fail(b) => {
                                    if !cfg.strict && cfg.known.contains(&b.signature) {
                                        *local.known_hits.entry(b.signature).or_insert(0) += 1;
                                    } else if local.failures.len() < 5 && !local.failures.iter().any(|f| f.signature == b.signature) {
                                        local.failures.push(FailureRec {
                                            property: cfg.property.clone(),
                                            part: cfg.part.clone(),
                                            engine: cfg.engine.clone(),
                                            signature: b.signature,
                                            detail: b.detail,
                                            seed: cfg.seed,
                                            case: serde_json::to_value(case).unwrap_or(serde_json::Value::Null),
                                        });
                                    }
                                }
                            }
                        }
                    }
                    let mut a = acc.lock().unwrap();
                    a.nontrivial.extend(local.nontrivial);
                    for (k, v) in local.classes {
                        *a.classes.entry(k).or_insert(0) += v;
                    }
                    for s in local.samples {
                        if a.samples.len() < cfg.max_samples {
                            a.samples.push(s);
                        }
                    }
                    for f in local.failures {
                        if !a.failures.iter().any(|g| g.signature == f.signature) {
                            a.failures.push(f);
                        }
                    }
                    a.inconclusive.extend(local.inconclusive);
                    for (k, v) in local.known_hits {
                        *a.known_hits.entry(k).or_insert(0) += v;
                    }
                })
                .expect("spawn");
        }
    });
    let acc = acc.into_inner().unwrap();
    EngineReport {
        property: cfg.property.clone(),
        part: cfg.part.clone(),
        engine: cfg.engine.clone(),
        evaluations: evals.load(Ordering::Relaxed),
        nontrivial_fps: acc.nontrivial.into_iter().collect(),
        classes: acc.classes,
        samples: acc.samples,
        failures: acc.failures,
        inconclusive: acc.inconclusive,
        known_hits: acc.known_hits,
        exhaustive: false,
        wall_s: t0.elapsed().as_secs_f64(),
        notes: vec![],
    }
}

// ------------------------------------------------------------------------------------------
// Parts: a named (strategy, state, test) triple that can be run or replayed.

pub struct Part<'a> {
    pub name: String,
    pub engine: String,
    pub cases: u64,
    pub max_shrink_iters: u32,
    /// upper bound on worker threads for this part (process-wide measurements need 1)
    pub max_workers: Option<usize>,
    pub run: Box<dyn Fn(&RunCfg) -> EngineReport + 'a>,
    pub replay: Box<dyn Fn(&serde_json::Value) -> Result<Verdict, String> + 'a>,
}

pub fn make_part<'a, T, S, W, MS, MW, F>(name: &str, engine: &str, cases: u64, mk_strategy: MS, mk_state: MW, test: F) -> Part<'a>
where
    T: Debug + Serialize + serde::de::DeserializeOwned + 'a,
    S: Strategy<Value = T> + 'a,
    W: 'a,
    MS: Fn() -> S + Sync + 'a,
    MW: Fn(usize) -> W + Sync + 'a,
    F: Fn(&mut W, &T) -> Verdict + Sync + 'a,
{
    let test = std::sync::Arc::new(test);
    let mk_state = std::sync::Arc::new(mk_state);
    let t1 = test.clone();
    let m1 = mk_state.clone();
    Part {
        name: name.to_string(),
        engine: engine.to_string(),
        cases,
        max_shrink_iters: 2000,
        max_workers: None,
        run: Box::new(move |cfg| {
            let m: &MW = &m1;
            let t: &F = &t1;
            run_part(cfg, &mk_strategy, |w| m(w), |w, c| t(w, c))
        }),
        replay: Box::new(move |v| {
            let case: T = serde_json::from_value(v.clone()).map_err(|e| format!("cannot decode case: {}", e))?;
            let mut st = mk_state(0);
            Ok(test(&mut st, &case))
        }),
    }
}

/// Part over an explicit list of cases (exhaustive products / regression corpora).
pub fn make_list_part<'a, T, W, MW, F>(name: &str, engine: &str, cases: Vec<T>, exhaustive: bool, mk_state: MW, test: F) -> Part<'a>
where
    T: Debug + Serialize + serde::de::DeserializeOwned + Sync + 'a,
    W: 'a,
    MW: Fn(usize) -> W + Sync + 'a,
    F: Fn(&mut W, &T) -> Verdict + Sync + 'a,
{
    let test = std::sync::Arc::new(test);
    let mk_state = std::sync::Arc::new(mk_state);
    let t1 = test.clone();
    let m1 = mk_state.clone();
    let n = cases.len() as u64;
    Part {
        name: name.to_string(),
        engine: engine.to_string(),
        cases: n,
        max_shrink_iters: 0,
        max_workers: None,
        run: Box::new(move |cfg| {
            let m: &MW = &m1;
            let t: &F = &t1;
            let mut r = run_list(cfg, &cases, |w| m(w), |w, c| t(w, c));
            r.exhaustive = exhaustive;
            r
        }),
        replay: Box::new(move |v| {
            let case: T = serde_json::from_value(v.clone()).map_err(|e| format!("cannot decode case: {}", e))?;
            let mut st = mk_state(0);
            Ok(test(&mut st, &case))
        }),
    }
}
