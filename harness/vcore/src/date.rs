//! Independent IMF-fixdate validator (RFC 7231 7.1.1.1), incl. weekday check.

/// days since 1970-01-01 of a proleptic Gregorian civil date
fn days_from_civil(y: i64, m: i64, d: i64) -> i64 {
    let y = if m <= 2 { y - 1 } else { y };
    let era = if y >= 0 { y } else { y - 399 } / 400;
    let yoe = y - era * 400;
    let mp = (m + 9) % 12;
    let doy = (153 * mp + 2) / 5 + d - 1;
    let doe = yoe * 365 + yoe / 4 - yoe / 100 + doy;
    era * 146097 + doe - 719468
}

/// Returns the unix time denoted by an IMF-fixdate, or an error text.
pub fn parse_imf_fixdate(s: &str) -> Result<i64, String> {
    // "Sun, 06 Nov 1994 08:49:37 GMT"
    let b = s.as_bytes();
    if b.len() != 29 {
        return Err(format!("length {} != 29", b.len()));
    }
    let days = ["Thu", "Fri", "Sat", "Sun", "Mon", "Tue", "Wed"]; // 1970-01-01 was a Thursday
    let months = ["Jan", "Feb", "Mar", "Apr", "May", "Jun", "Jul", "Aug", "Sep", "Oct", "Nov", "Dec"];
    let dn = &s[0..3];
    if &s[3..5] != ", " || b[7] != b' ' || b[11] != b' ' || b[16] != b' ' || b[19] != b':' || b[22] != b':' || &s[25..] != " GMT" {
        return Err("separators".into());
    }
    let num = |r: std::ops::Range<usize>| -> Result<i64, String> {
        let t = &s[r];
        if !t.bytes().all(|c| c.is_ascii_digit()) {
            return Err(format!("not digits: {:?}", t));
        }
        Ok(t.parse::<i64>().unwrap())
    };
    let day = num(5..7)?;
    let mon = months.iter().position(|m| *m == &s[8..11]).ok_or("month name")? as i64 + 1;
    let year = num(12..16)?;
    let hh = num(17..19)?;
    let mm = num(20..22)?;
    let ss = num(23..25)?;
    let leap = (year % 4 == 0 && year % 100 != 0) || year % 400 == 0;
    let dim = [31, if leap { 29 } else { 28 }, 31, 30, 31, 30, 31, 31, 30, 31, 30, 31][(mon - 1) as usize];
    if day < 1 || day > dim || hh > 23 || mm > 59 || ss > 60 {
        return Err("field out of range".into());
    }
    let d = days_from_civil(year, mon, day);
    let wd = days[(d.rem_euclid(7)) as usize];
    if wd != dn {
        return Err(format!("weekday {} but date is a {}", dn, wd));
    }
    Ok(d * 86400 + hh * 3600 + mm * 60 + ss)
}

#[cfg(test)]
mod tests {
    use super::*;
    #[test]
    fn known_dates() {
        assert_eq!(parse_imf_fixdate("Sun, 06 Nov 1994 08:49:37 GMT"), Ok(784111777));
        assert_eq!(parse_imf_fixdate("Wed, 04 May 1983 11:17:00 GMT"), Ok(420895020));
        assert_eq!(parse_imf_fixdate("Thu, 01 Jan 1970 00:00:00 GMT"), Ok(0));
        assert!(parse_imf_fixdate("Mon, 06 Nov 1994 08:49:37 GMT").is_err());
        assert!(parse_imf_fixdate("Sun, 6 Nov 1994 08:49:37 GMT").is_err());
        assert!(parse_imf_fixdate("Sun, 31 Feb 1994 08:49:37 GMT").is_err());
    }
}
