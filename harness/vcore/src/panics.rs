//! Panic bookkeeping: a process-wide hook that records every panic (thread name, message,
//! location) instead of printing it, so that (a) a panic inside the library becomes an ordinary
//! oracle failure and (b) C14/C15 can ask "did any thread panic while this case ran?".

use std::sync::atomic::{AtomicU64, Ordering};
use std::sync::Mutex;

#[derive(Clone, Debug)]
pub struct PanicRec {
    pub thread: String,
    pub message: String,
    pub location: String,
}

static COUNT: AtomicU64 = AtomicU64::new(0);
static LOG: Mutex<Vec<PanicRec>> = Mutex::new(Vec::new());

/// payload type for panics the harness raises on purpose (handler program `Panic`)
pub struct HarnessPanic;

pub fn install() {
    let show = std::env::var("VERIF_SHOW_PANICS").is_ok();
    let default = std::panic::take_hook();
    std::panic::set_hook(Box::new(move |info| {
        if info.payload().downcast_ref::<HarnessPanic>().is_some() {
            return;
        }
        let message = if let Some(s) = info.payload().downcast_ref::<&str>() {
            s.to_string()
        } else if let Some(s) = info.payload().downcast_ref::<String>() {
            s.clone()
        } else {
            "<non-string payload>".to_string()
        };
        let location = info.location().map(|l| format!("{}:{}", l.file(), l.line())).unwrap_or_default();
        let thread = std::thread::current().name().unwrap_or("<unnamed>").to_string();
        COUNT.fetch_add(1, Ordering::SeqCst);
        if let Ok(mut log) = LOG.lock() {
            if log.len() < 10_000 {
                log.push(PanicRec { thread, message, location });
            }
        }
        if show {
            default(info);
        }
    }));
}

pub fn count() -> u64 {
    COUNT.load(Ordering::SeqCst)
}

/// panics recorded since index `from` (use `count()` taken before the case)
pub fn since(from: u64) -> Vec<PanicRec> {
    let log = LOG.lock().unwrap();
    log.iter().skip(from as usize).cloned().collect()
}

/// short stable description of a panic for signatures: message with digits squeezed, plus file
pub fn signature_of(p: &PanicRec) -> String {
    let mut msg: String = p.message.chars().take(60).map(|c| if c.is_ascii_digit() { '#' } else if c.is_ascii_alphanumeric() || c == '#' { c } else { '-' }).collect();
    while msg.contains("##") {
        msg = msg.replace("##", "#");
    }
    while msg.contains("--") {
        msg = msg.replace("--", "-");
    }
    let file = p.location.rsplit('/').next().unwrap_or("").split(':').next().unwrap_or("").to_string();
    format!("{}@{}", msg.trim_matches('-'), file)
}

pub fn catch<T>(f: impl FnOnce() -> T) -> Result<T, PanicRec> {
    let before = count();
    match std::panic::catch_unwind(std::panic::AssertUnwindSafe(f)) {
        Ok(v) => Ok(v),
        Err(_) => {
            let recs = since(before);
            Err(recs.into_iter().last().unwrap_or(PanicRec { thread: String::new(), message: "panic".into(), location: String::new() }))
        }
    }
}
