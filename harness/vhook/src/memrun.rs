//! CONV/mem sequential engine: the real `ClientConnection` over an in-memory connection, driven
//! on the calling thread.  The scripted client is evaluated lazily whenever the server wants
//! input, so "server waits for the client while the client waits for the server" is an exact,
//! finite observation (`Observation::stall`).  Shared by `vhook` (std) and `vsched` (controlled).

use crate::interp;
use std::collections::VecDeque;
use std::io::ErrorKind;
use std::sync::{Arc, Mutex as StdMutex};
use tiny_http_verif_rt as rt;
use tiny_http_verif_rt::mem::{Starve, StarveView};
use vcore::conv::*;
use vcore::respparse::{parse_one, BodyFraming, ParseErr};
use vcore::wire::render;

#[derive(Clone, Debug, Default)]
pub struct MemOpts {
    /// additional cut points (absolute offsets into the client's byte stream): every `Send` is
    /// split at them, each piece being one segment = one `read` result
    pub cuts: Vec<usize>,
    /// deliver every byte as its own segment
    pub bytewise: bool,
    /// the client vanishes after this many bytes of its stream: (offset, how)
    pub cut_at: Option<(usize, CutKind)>,
    /// writes fail with this kind once `limit` bytes have been written in total
    pub write_fault: Option<(usize, ErrorKind)>,
    /// the client's byte stream, replacing the rendered conversation (byte-level edits)
    pub raw: Option<Arc<Vec<u8>>>,
    /// every k-th read / write of the transport reports a transient `Interrupted` (0 = never)
    pub read_intr: usize,
    pub write_intr: usize,
    /// a write on the transport takes at most this many bytes (0 = everything)
    pub write_max: usize,
}

#[derive(Clone, Copy, Debug, PartialEq, Eq, serde::Serialize, serde::Deserialize)]
pub enum CutKind {
    HalfClose,
    Close,
    Reset,
    Aborted,
    BrokenPipe,
    /// the read fails with `TimedOut` (a socket with a read timeout whose peer went silent)
    TimedOut,
}

struct ScriptState {
    steps: Vec<Step>,
    idx: usize,
    pending: VecDeque<Vec<u8>>,
    sent: usize,
    heads: Vec<bool>,
    sent_when_msg: Arc<StdMutex<Vec<usize>>>,
    seen_msgs: usize,
    sent_now: Arc<std::sync::atomic::AtomicUsize>,
}

fn count_msgs(out: &[u8], heads: &[bool]) -> (usize, usize, bool) {
    // (messages, finals, stuck)
    let mut pos = 0;
    let mut msgs = 0;
    let mut finals = 0;
    while pos < out.len() {
        match parse_one(&out[pos..], heads.get(finals).copied().unwrap_or(false)) {
            Ok(m) => {
                if m.framing == BodyFraming::UntilClose {
                    return (msgs, finals, true);
                }
                pos += m.consumed;
                msgs += 1;
                if m.status >= 200 {
                    finals += 1;
                }
                if m.status == 101 {
                    return (msgs, finals, true);
                }
            }
            Err(ParseErr::Incomplete) => break,
            Err(ParseErr::Malformed(_)) => return (msgs, finals, true),
        }
    }
    (msgs, finals, false)
}

pub fn run_mem(case: &ConvCase, opts: &MemOpts) -> Observation {
    let exp = expect(case);
    let heads: Vec<bool> = exp.msgs.iter().map(|m| m.head).collect();
    let rendered = render(&case.conv);
    let bytes = match &opts.raw {
        Some(r) => r.clone(),
        None => Arc::new(rendered.with_nonce(b"00000000")),
    };
    let (client, conn) = rt::mem::pair();
    if let Some((limit, kind)) = opts.write_fault {
        client.set_write_fault(limit, kind);
    }
    if opts.read_intr > 0 {
        client.set_read_interrupts(opts.read_intr);
    }
    if opts.write_intr > 0 {
        client.set_write_interrupts(opts.write_intr);
    }
    if opts.write_max > 0 {
        client.set_write_max(opts.write_max);
    }
    let sent_when_msg = Arc::new(StdMutex::new(vec![]));
    let sent_now = Arc::new(std::sync::atomic::AtomicUsize::new(0));
    let mut st = ScriptState { steps: case.script.clone(), idx: 0, pending: VecDeque::new(), sent: 0, heads, sent_when_msg: sent_when_msg.clone(), seen_msgs: 0, sent_now: sent_now.clone() };
    let mut cuts = opts.cuts.clone();
    cuts.sort();
    cuts.dedup();
    let bytewise = opts.bytewise;
    let cut_at = opts.cut_at;
    let b2 = bytes.clone();
    client.set_starve(Box::new(move |view: &StarveView<'_>| -> Starve {
        // bookkeeping for "how much had the client sent when message k was complete"
        let (msgs, finals, stuck) = count_msgs(view.out, &st.heads);
        while st.seen_msgs < msgs {
            st.sent_when_msg.lock().unwrap().push(st.sent);
            st.seen_msgs += 1;
        }
        loop {
            st.sent_now.store(st.sent, std::sync::atomic::Ordering::SeqCst);
            if let Some(seg) = st.pending.pop_front() {
                // the client vanishes after `off` bytes of its stream
                if let Some((off, kind)) = cut_at {
                    if st.sent >= off {
                        st.pending.clear();
                        st.idx = st.steps.len();
                        return vanish(kind);
                    }
                    if st.sent + seg.len() > off {
                        let keep = off - st.sent;
                        st.sent += keep;
                        st.pending.clear();
                        st.pending.push_back(vec![]); // marker: next call vanishes
                        st.idx = st.steps.len();
                        return Starve::Data(seg[..keep].to_vec());
                    }
                }
                if seg.is_empty() {
                    continue;
                }
                st.sent += seg.len();
                st.sent_now.store(st.sent, std::sync::atomic::Ordering::SeqCst);
                return Starve::Data(seg);
            }
            if let Some((off, kind)) = cut_at {
                if st.sent >= off || st.idx >= st.steps.len() {
                    return vanish(kind);
                }
            }
            let Some(step) = st.steps.get(st.idx).cloned() else { return Starve::Idle };
            match step {
                Step::Send { from, to } => {
                    st.idx += 1;
                    let to = to.min(b2.len());
                    let from = from.min(to);
                    if bytewise {
                        for b in &b2[from..to] {
                            st.pending.push_back(vec![*b]);
                        }
                    } else {
                        let mut a = from;
                        for c in cuts.iter().copied().filter(|c| *c > from && *c < to) {
                            st.pending.push_back(b2[a..c].to_vec());
                            a = c;
                        }
                        st.pending.push_back(b2[a..to].to_vec());
                    }
                }
                Step::AwaitFinals(n) => {
                    if finals >= n || stuck {
                        st.idx += 1;
                    } else {
                        return Starve::Stall(format!("the client waits for {} final responses (has {}), the server waits for more input after consuming {} bytes", n, finals, view.consumed));
                    }
                }
                Step::AwaitMsgs(n) => {
                    if msgs >= n || stuck {
                        st.idx += 1;
                    } else {
                        return Starve::Stall(format!("the client waits for message {} (has {}) before sending more, the server waits for input after consuming {} bytes", n, msgs, view.consumed));
                    }
                }
                Step::HalfClose => {
                    st.idx += 1;
                    return Starve::Eof;
                }
                Step::AwaitEof => {
                    if view.out_shutdown {
                        st.idx += 1;
                        return Starve::Eof;
                    }
                    return Starve::Stall(format!("the client waits for the server to close, the server waits for more input after consuming {} bytes", view.consumed));
                }
                Step::Close => {
                    st.idx += 1;
                    return Starve::Close(ErrorKind::BrokenPipe);
                }
                Step::Reset => {
                    st.idx += 1;
                    return Starve::Abort(ErrorKind::ConnectionReset);
                }
            }
        }
    }));
    let delivered: StdMutex<Vec<Delivered>> = StdMutex::new(vec![]);
    let panics_before = vcore::panics::count();
    let client2 = client.clone();
    let r = vcore::panics::catch(|| {
        let it = tiny_http::verif::client_connection(conn);
        for rq in it {
            let id = interp::parse_id(rq.url(), "00000000");
            let idx = id.and_then(|id| case.conv.reqs.iter().position(|r| r.id == id)).unwrap_or(0);
            let prog = case.prog(idx).clone();
            let prog = if matches!(prog.finish, Finish::Panic) { Prog { read: prog.read, finish: Finish::Drop } } else { prog };
            interp::handle(rq, &prog, "00000000", client2.output_len(), &delivered);
        }
    });
    let mut obs = Observation::default();
    obs.delivered = delivered.into_inner().unwrap();
    obs.client = client.output();
    obs.client_eof = client.output_closed();
    obs.server_closed_write = Some(client.output_closed());
    obs.server_consumed = Some(client.consumed());
    obs.stall = client.stalled();
    obs.exact_end = true;
    obs.sent_when_msg = sent_when_msg.lock().unwrap().clone();
    // messages completed after the last starve call
    {
        let (msgs, _, _) = count_msgs(&obs.client, &exp.msgs.iter().map(|m| m.head).collect::<Vec<_>>());
        while obs.sent_when_msg.len() < msgs {
            obs.sent_when_msg.push(sent_now.load(std::sync::atomic::Ordering::SeqCst));
        }
    }
    obs.panics = vcore::panics::since(panics_before);
    if r.is_err() && obs.panics.is_empty() {
        obs.panics.push(vcore::panics::PanicRec { thread: String::new(), message: "panic".into(), location: String::new() });
    }
    obs
}

fn vanish(kind: CutKind) -> Starve {
    match kind {
        CutKind::HalfClose => Starve::Eof,
        CutKind::Close => Starve::Close(ErrorKind::BrokenPipe),
        CutKind::Reset => Starve::Abort(ErrorKind::ConnectionReset),
        CutKind::Aborted => Starve::Abort(ErrorKind::ConnectionAborted),
        CutKind::BrokenPipe => Starve::Abort(ErrorKind::BrokenPipe),
        // (a read error only: the sending direction keeps working)
        CutKind::TimedOut => Starve::Error(ErrorKind::TimedOut),
    }
}
