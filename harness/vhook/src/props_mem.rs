//! Per-property parts of the CONV/mem engine.

use crate::memrun::{run_mem, CutKind, MemOpts};
use proptest::prelude::*;
use serde::{Deserialize, Serialize};
use vcore::cli::Cli;
use vcore::conv::*;
use vcore::gen;
use vcore::oracles::*;
use vcore::runner::{fail, make_part, Good, Part, Verdict};
use std::sync::Arc;
use vcore::wire::{render, Region};

fn mem() -> BoxedStrategy<Transport> {
    Just(Transport::Mem).boxed()
}

fn run(case: &ConvCase) -> (Expected, Observation) {
    (expect(case), run_mem(case, &MemOpts::default()))
}

/// the same over a transport whose reads and writes now and then report a transient `Interrupted`
/// (EINTR): whoever retries, as write_all / read_exact / Read::bytes do, must notice nothing
fn run_intr(case: &ConvCase) -> (Expected, Observation) {
    let k = render(&case.conv).bytes.len() + case.conv.reqs.len() * 7;
    (expect(case), run_mem(case, &MemOpts { read_intr: [2, 3, 5, 2][k % 4], write_intr: [0, 2, 3, 5][(k / 4) % 4], write_max: [0, 1, 13, 0, 700][(k / 16) % 5], ..Default::default() }))
}

// ------------------------------------------------------------------------------------------
// C13: segmentation independence (metamorphic)

#[derive(Clone, Debug, Serialize, Deserialize)]
pub struct SegCase {
    pub case: ConvCase,
    /// random multi-way splits (offsets, as fractions of 65536 of the stream length)
    pub multi: Vec<Vec<u16>>,
    /// test every single split point (else: a generated sample)
    pub all_points: bool,
    /// byte-level edits of the rendered stream (position as a fraction of 65536, kind, byte):
    /// the property speaks of any byte stream, not only of well-formed ones
    #[serde(default)]
    pub edits: Vec<(u16, u8, u8)>,
}

const EDIT_BYTES: &[u8] = b"\n\r \t:;,=A0\x00\x80\xff\"";

/// applies the edits; kinds: 0 = the next CRLF loses its CR (bare LF), 1 = insert the byte, 2 =
/// replace by the byte, 3 = delete a byte, 4 = the next CRLF is doubled, 5 = the next CRLF loses its LF
fn apply_edits(mut b: Vec<u8>, edits: &[(u16, u8, u8)]) -> Vec<u8> {
    for (f, kind, byte) in edits {
        if b.len() < 4 {
            break;
        }
        let pos = (*f as usize * b.len()) >> 16;
        let byte = EDIT_BYTES[*byte as usize % EDIT_BYTES.len()];
        let next_crlf = (pos..b.len() - 1).find(|i| b[*i] == b'\r' && b[*i + 1] == b'\n');
        match kind % 6 {
            0 => {
                if let Some(i) = next_crlf {
                    b.remove(i);
                }
            }
            1 => b.insert(pos, byte),
            2 => b[pos] = byte,
            3 => {
                b.remove(pos);
            }
            4 => {
                if let Some(i) = next_crlf {
                    b.insert(i, b'\n');
                    b.insert(i, b'\r');
                }
            }
            _ => {
                if let Some(i) = next_crlf {
                    b.remove(i + 1);
                }
            }
        }
    }
    b
}

/// conversations of every kind, with programs whose result does not depend on short reads
pub fn corpus_strategy(max_len: usize, with_malformed: bool) -> BoxedStrategy<ConvCase> {
    let valid = prop_oneof![
        2 => gen::c02_strategy(mem()),
        3 => gen::c03_strategy(max_len, mem()),
        3 => gen::c09_strategy(max_len, mem()),
        2 => gen::c12_strategy(mem()),
        2 => gen::c18_strategy(mem()),
        1 => gen::c06_strategy(mem(), false),
    ];
    let s = if with_malformed { prop_oneof![6 => valid, 2 => gen::c10_strategy(mem()), 2 => gen::c16_strategy(mem())].boxed() } else { valid.boxed() };
    s.prop_map(|mut c| {
        for p in c.progs.iter_mut() {
            if let ReadPlan::Sizes(_) = p.read {
                // a fixed number of reads returns different amounts under different segmentations
                p.read = ReadPlan::ToEof { buf: 3000, extra: 1 };
            }
        }
        c
    })
    .boxed()
}

fn blank_dates(out: &[u8]) -> Vec<u8> {
    // replace the value of every "Date: " header line by a constant
    let mut v = Vec::with_capacity(out.len());
    let mut i = 0;
    while i < out.len() {
        if out[i..].starts_with(b"\r\nDate: ") {
            v.extend_from_slice(b"\r\nDate: X");
            i += 8;
            while i < out.len() && out[i] != b'\r' {
                i += 1;
            }
        } else {
            v.push(out[i]);
            i += 1;
        }
    }
    v
}

#[derive(PartialEq, Debug)]
struct Proj {
    delivered: Vec<(Option<u32>, String, String, (u8, u8), Vec<(String, String)>, Option<usize>, Vec<u8>, String, Option<String>, bool)>,
    client: Vec<u8>,
    eof: bool,
    stall: bool,
    panics: usize,
}

fn project(obs: &Observation) -> Proj {
    Proj {
        delivered: obs
            .delivered
            .iter()
            .map(|d| (d.id, d.method.clone(), d.url.clone(), d.version, d.headers.clone(), d.body_length, d.body.clone(), d.finish.clone(), d.respond_err.clone(), d.reads.iter().any(|r| r.res.is_err())))
            .collect(),
        client: blank_dates(&obs.client),
        eof: obs.client_eof,
        stall: obs.stall.is_some(),
        panics: obs.panics.len(),
    }
}

fn diff_kind(a: &Proj, b: &Proj) -> (String, String) {
    if a.delivered.len() != b.delivered.len() {
        return ("delivered-count".into(), format!("{} requests delivered unsplit, {} with this segmentation", a.delivered.len(), b.delivered.len()));
    }
    for (k, (x, y)) in a.delivered.iter().zip(b.delivered.iter()).enumerate() {
        if x.0 != y.0 || x.1 != y.1 || x.2 != y.2 || x.3 != y.3 || x.4 != y.4 {
            return ("request-head".into(), format!("delivery #{} differs: {:?} {:?} vs {:?} {:?}", k, x.1, x.2, y.1, y.2));
        }
        if x.5 == y.5 && x.9 && y.9 && (x.6.starts_with(&y.6) || y.6.starts_with(&x.6)) {
            // both reads of the body ended in an error, after different amounts of it
            return ("=request-body-prefix-before-read-error".into(), format!("delivery #{}: {} vs {} bytes of the body were readable before the read error", k, x.6.len(), y.6.len()));
        }
        if x.6 != y.6 || x.5 != y.5 {
            let at = x.6.iter().zip(y.6.iter()).position(|(p, q)| p != q).unwrap_or(x.6.len().min(y.6.len()));
            return ("request-body".into(), format!("delivery #{}: body {} vs {} bytes, first difference at {}", k, x.6.len(), y.6.len(), at));
        }
        if x.8 != y.8 {
            return ("respond-result".into(), format!("delivery #{}: {:?} vs {:?}", k, x.8, y.8));
        }
    }
    if a.client != b.client {
        let at = a.client.iter().zip(b.client.iter()).position(|(p, q)| p != q).unwrap_or(a.client.len().min(b.client.len()));
        return ("responses".into(), format!("response streams differ at byte {} ({} vs {} bytes): {:?} vs {:?}", at, a.client.len(), b.client.len(), vcore::resp::head_preview(&a.client[at.saturating_sub(20)..]), vcore::resp::head_preview(&b.client[at.saturating_sub(20)..])));
    }
    if a.eof != b.eof {
        return ("end-of-stream".into(), format!("{} vs {}", a.eof, b.eof));
    }
    if a.stall != b.stall {
        return ("stall".into(), format!("{} vs {}", a.stall, b.stall));
    }
    ("panic".into(), format!("{} vs {}", a.panics, b.panics))
}

fn split_class(rd: &vcore::wire::Rendered, off: usize) -> &'static str {
    // classify the byte *before which* the stream is cut
    let r_after = rd.region_at(off);
    let r_before = if off > 0 { rd.region_at(off - 1) } else { r_after };
    if off % 1024 == 0 {
        return "split@1024-multiple";
    }
    if r_before == Region::Crlf && r_after == Region::Crlf && off > 0 && rd.bytes[off - 1] == b'\r' {
        return "split-inside-CRLF";
    }
    match (r_before, r_after) {
        (Region::ChunkSizeLine, Region::ChunkSizeLine) => "split-inside-chunk-size-line",
        (Region::ChunkCrlf, Region::ChunkCrlf) => "split-inside-chunk-CRLF",
        (Region::Body, Region::Body) => "split-inside-body",
        (Region::ChunkData, Region::ChunkData) => "split-inside-chunk-data",
        (Region::RequestLine, Region::RequestLine) => "split-inside-request-line",
        (Region::HeaderName, _) | (_, Region::HeaderName) => "split-at-header-name",
        _ => "split-other",
    }
}

pub fn c13_test(sc: &SegCase) -> Verdict {
    let rd = render(&sc.case.conv);
    // an edited stream is sent at once and followed by a half-close (the script's waits refer to
    // responses that may never come)
    let edited: Option<(ConvCase, Arc<Vec<u8>>)> = if sc.edits.is_empty() {
        None
    } else {
        let raw = apply_edits(rd.with_nonce(b"00000000"), &sc.edits);
        let mut c = sc.case.clone();
        c.script = vec![Step::Send { from: 0, to: raw.len() }, Step::HalfClose];
        Some((c, Arc::new(raw)))
    };
    let (case, raw): (&ConvCase, Option<Arc<Vec<u8>>>) = match &edited {
        Some((c, r)) => (c, Some(r.clone())),
        None => (&sc.case, None),
    };
    let n = raw.as_ref().map(|r| r.len()).unwrap_or(rd.bytes.len());
    let base_obs = run_mem(case, &MemOpts { raw: raw.clone(), ..Default::default() });
    let base = project(&base_obs);
    let mut g = Good::trivial();
    let mut runs = 0u64;
    let mut interesting = false;
    let mut check = |opts: &MemOpts, label: &str| -> Option<Verdict> {
        let o = run_mem(case, &MemOpts { raw: raw.clone(), ..opts.clone() });
        let p = project(&o);
        if p != base {
            let (k, d) = diff_kind(&base, &p);
            // (a kind starting with '=' names its own class, whatever the split was)
            if let Some(k) = k.strip_prefix('=') {
                return Some(fail(format!("C13/{}{}", if edited.is_some() { "edited-stream/" } else { "" }, k), d));
            }
            return Some(fail(format!("C13/{}{}/{}", if edited.is_some() { "edited-stream/" } else { "" }, label, k), d));
        }
        None
    };
    // every single split point (or a sample of them for long streams)
    let points: Vec<usize> = if sc.all_points || n <= 600 { (1..n).collect() } else { (1..n).step_by((n / 400).max(1)).chain((1..n).filter(|o| o % 1024 <= 1 || o % 1024 == 1023)).collect() };
    for off in points {
        runs += 1;
        let cls = if edited.is_some() { "split-in-edited-stream" } else { split_class(&rd, off) };
        if cls != "split-other" && cls != "split-inside-request-line" && cls != "split-at-header-name" && cls != "split-inside-chunk-data" {
            interesting = true;
        }
        if let Some(v) = check(&MemOpts { cuts: vec![off], ..Default::default() }, cls) {
            return v;
        }
        if runs % 64 == 1 {
            g.classes.push(cls.to_string());
        }
    }
    // one byte at a time
    if n <= 20_000 {
        runs += 1;
        if let Some(v) = check(&MemOpts { bytewise: true, ..Default::default() }, "bytewise") {
            return v;
        }
        g.classes.push("bytewise".into());
    }
    // random multi-way splits
    for m in &sc.multi {
        runs += 1;
        let cuts: Vec<usize> = m.iter().map(|f| (*f as usize * n) >> 16).filter(|c| *c > 0 && *c < n).collect();
        if let Some(v) = check(&MemOpts { cuts, ..Default::default() }, "multi-way") {
            return v;
        }
    }
    g.extra_evals = runs;
    if interesting {
        g.nontrivial = Some(0);
    }
    if edited.is_some() {
        g.classes.push("edited-stream".into());
        g.classes.push(format!("edited-stream/delivered={}", base.delivered.len().min(3)));
    }
    g.classes.push(format!("stream-bytes<={}", if n <= 256 { 256 } else if n <= 1024 { 1024 } else if n <= 4096 { 4096 } else { 65536 }));
    Verdict::Pass(g)
}

// ------------------------------------------------------------------------------------------
// C13, history: what a connection's peer observes depends on the bytes sent on *that* connection
// only — not on what the thread that serves it served before (pool workers are reused).

#[derive(Clone, Debug, Serialize, Deserialize)]
pub struct HistoryCase {
    /// the earlier connection, served on the same thread first ...
    pub before: ConvCase,
    /// ... whose client vanishes after this fraction (of 65536) of its stream, in this way
    pub cut: u16,
    pub how: u8,
    /// byte-level edits of the earlier connection's stream
    pub edits: Vec<(u16, u8, u8)>,
    /// how many such earlier connections
    pub repeat: u8,
    /// the connection that is looked at
    pub case: ConvCase,
}

pub fn c13_history_strategy(max_len: usize) -> BoxedStrategy<HistoryCase> {
    (
        corpus_strategy(max_len, true),
        prop_oneof![3 => any::<u16>(), 1 => Just(u16::MAX)],
        0u8..4,
        prop_oneof![3 => Just(vec![]), 1 => proptest::collection::vec((any::<u16>(), 0u8..6, any::<u8>()), 1..3)],
        1u8..4,
        corpus_strategy(max_len, true),
    )
        .prop_map(|(before, cut, how, edits, repeat, case)| HistoryCase { before, cut, how, edits, repeat, case })
        .boxed()
}

pub fn c13_history_test(hc: &HistoryCase) -> Verdict {
    // the connection alone, on a thread that has never served anything
    let case = hc.case.clone();
    let alone = std::thread::Builder::new().stack_size(16 << 20).spawn(move || run_mem(&case, &MemOpts::default())).expect("spawn").join();
    let Ok(alone) = alone else { return Verdict::Inconclusive("reference run panicked".into()) };
    // the same connection on a thread that has served other clients before
    let hc2 = hc.clone();
    let after = std::thread::Builder::new()
        .stack_size(16 << 20)
        .spawn(move || {
            let rd = render(&hc2.before.conv);
            let raw = apply_edits(rd.with_nonce(b"00000000"), &hc2.edits);
            let n = raw.len();
            let k = if hc2.cut == u16::MAX { n } else { (hc2.cut as usize * n) >> 16 };
            let kind = [CutKind::HalfClose, CutKind::Close, CutKind::Reset, CutKind::TimedOut][hc2.how as usize % 4];
            let mut c = hc2.before.clone();
            c.script = vec![Step::Send { from: 0, to: n }, Step::HalfClose];
            let raw = Arc::new(raw);
            let mut cut_inside_line = false;
            for _ in 0..hc2.repeat.max(1) {
                let _ = run_mem(&c, &MemOpts { raw: Some(raw.clone()), cut_at: Some((k, kind)), ..Default::default() });
            }
            if k > 0 && k < n && raw[k - 1] != b'\n' {
                cut_inside_line = true;
            }
            (run_mem(&hc2.case, &MemOpts::default()), cut_inside_line)
        })
        .expect("spawn")
        .join();
    let Ok((after, cut_inside_line)) = after else { return Verdict::Inconclusive("history run panicked".into()) };
    let (a, b) = (project(&alone), project(&after));
    if a != b {
        let (k, d) = diff_kind(&a, &b);
        return fail(format!("C13/after-another-connection/{}", k.trim_start_matches('=')), format!("the same bytes on a fresh connection, served by a thread that has served a client before (which vanished after {}/65536 of its stream): {}", hc.cut, d));
    }
    let mut g = if cut_inside_line { Good::nontrivial() } else { Good::trivial() };
    g.extra_evals = 1 + hc.repeat.max(1) as u64;
    g = g.class(if cut_inside_line { "earlier-client-vanished-inside-a-line" } else { "earlier-client-vanished-at-a-line-end-or-finished" }).class_if(!hc.edits.is_empty(), "earlier-stream-edited").class(format!("earlier-connections={}", hc.repeat.max(1)));
    Verdict::Pass(g)
}

// ------------------------------------------------------------------------------------------
// C15: a vanishing client (fault enumeration)

#[derive(Clone, Debug, Serialize, Deserialize)]
pub struct CutCase {
    pub case: ConvCase,
    /// enumerate every prefix length (else region boundaries +-1 and a sample)
    pub every: bool,
}

/// index of the first request that is *not* complete within the first `k` bytes
fn complete_prefix(case: &ConvCase, rd: &vcore::wire::Rendered, k: usize) -> usize {
    let mut n = 0;
    for (i, r) in rd.ranges.iter().enumerate() {
        let rq = &case.conv.reqs[i];
        // (the body of a request whose Connection header names upgrade is the rest of the connection:
        // never buffered)
        let upgrades = rq.headers.iter().find(|h| h.name.eq_ignore_ascii_case("connection")).map(|h| h.value.to_ascii_lowercase().contains("upgrade")).unwrap_or(false);
        let buffered = matches!(rq.framing, vcore::wire::Framing::Length { n } if n > 0 && n <= 1024) && !rq.expects_continue() && !upgrades;
        let need = if buffered { r.end } else { r.head_end };
        if need <= k {
            n = i + 1;
        } else {
            break;
        }
    }
    n
}

pub fn c15_request_side(cc: &CutCase) -> Verdict {
    let rd = render(&cc.case.conv);
    let n = rd.bytes.len();
    let exp = expect(&cc.case);
    let mut g = Good::trivial();
    let mut runs = 0u64;
    let mut inside = false;
    // (every prefix for streams up to 2500 bytes; beyond that the region boundaries and a sample: a
    // case must stay well below the progress watchdog also on a loaded machine)
    let ks: Vec<usize> = if (cc.every && n <= 2500) || n <= 400 {
        (0..=n).collect()
    } else {
        let mut v: Vec<usize> = vec![0, n];
        for (s, _) in &rd.regions {
            for d in [-1i64, 0, 1] {
                let x = *s as i64 + d;
                if x >= 0 && (x as usize) <= n {
                    v.push(x as usize);
                }
            }
        }
        v.extend((0..n).step_by((n / if cc.every { 400 } else { 64 }).max(1)));
        v.sort();
        v.dedup();
        v
    };
    for k in ks {
        let complete = complete_prefix(&cc.case, &rd, k);
        // the model's deliveries, cut down to what is complete
        let want: Vec<u32> = exp.delivered.iter().filter(|i| **i < complete).map(|i| cc.case.conv.reqs[*i].id).collect();
        let strictly_inside = rd.ranges.iter().any(|r| k > r.start && k < r.end);
        for kind in [CutKind::HalfClose, CutKind::Close, CutKind::Reset, CutKind::Aborted, CutKind::BrokenPipe, CutKind::TimedOut] {
            runs += 1;
            // the script is replaced by "send everything", the cut does the rest
            let mut case = cc.case.clone();
            case.script = vec![Step::Send { from: 0, to: n }];
            let obs = run_mem(&case, &MemOpts { cut_at: Some((k, kind)), ..Default::default() });
            let label = format!("{:?}", kind).to_lowercase();
            if let Some(s) = &obs.stall {
                return fail(format!("C15/{}/stall", label), format!("cut after {} bytes: {}", k, s));
            }
            if let Some(p) = obs.panics.first() {
                return fail(format!("C15/{}/panic/{}", label, vcore::panics::signature_of(p)), format!("cut after {} bytes: {} at {}", k, p.message, p.location));
            }
            let got: Vec<Option<u32>> = obs.delivered.iter().map(|d| d.id).collect();
            // never deliver what was not complete (or not sent)
            for (j, id) in got.iter().enumerate() {
                match id {
                    None => return fail(format!("C15/{}/delivered-not-a-request", label), format!("cut after {} bytes: delivery #{} is {:?} {:?}", k, j, obs.delivered[j].method, obs.delivered[j].url)),
                    Some(id) => {
                        if !want.contains(id) {
                            return fail(format!("C15/{}/incomplete-request-delivered", label), format!("cut after {} of {} bytes: request id {} delivered although only {} requests were complete (model: {:?})", k, n, id, complete, want));
                        }
                    }
                }
            }
            if let Err((kk, d)) = comp_respond_ok(&obs) {
                return fail(format!("C15/{}/{}", label, kk), format!("cut after {} bytes: {}", k, d));
            }
            if kind == CutKind::HalfClose {
                // orderly close: everything complete is still delivered and answered
                let got_ids: Vec<u32> = got.iter().flatten().copied().collect();
                if got_ids != want {
                    return fail("C15/halfclose/complete-request-not-delivered", format!("cut after {} of {} bytes: complete ids {:?}, delivered {:?}", k, n, want, got_ids));
                }
                let exp_k = Expected { models: exp.models.clone(), delivered: exp.delivered.iter().copied().filter(|i| *i < complete).collect(), msgs: exp.msgs.iter().filter(|m| m.req_idx < complete).cloned().collect(), ends_after: exp.ends_after };
                let view = client_view(&obs.client, &exp_k);
                // the last request's interim/upgrade details depend on where exactly the cut is: compare counts and statuses
                if view.error.is_none() || view.finals.len() < exp_k.msgs.len() {
                    if view.finals.len() < exp_k.msgs.len() {
                        return fail("C15/halfclose/complete-request-not-answered", format!("cut after {} of {} bytes: {} responses for {} delivered requests; {:?}", k, n, view.finals.len(), exp_k.msgs.len(), view.error));
                    }
                }
                if !obs.client_eof {
                    return fail("C15/halfclose/no-end-of-stream", format!("cut after {} bytes: the server never closed its sending side", k));
                }
            }
        }
        if strictly_inside {
            inside = true;
        }
    }
    g.extra_evals = runs.saturating_sub(1);
    if inside {
        g.nontrivial = Some(0);
    }
    g.classes.push(format!("requests={}", cc.case.conv.reqs.len()));
    Verdict::Pass(g)
}

/// response side: the client is gone before / while the response is written
pub fn c15_response_side(cc: &CutCase) -> Verdict {
    let rd = render(&cc.case.conv);
    let n = rd.bytes.len();
    let mut case = cc.case.clone();
    case.script = vec![Step::Send { from: 0, to: n }, Step::HalfClose];
    let full = run_mem(&case, &MemOpts::default());
    let total = full.client.len();
    let mut runs = 1u64;
    // (every offset for response streams up to 3000 bytes; beyond that a sample of some hundred plus
    // the ends: a sweep over a 70 KB stream would take the part's whole time budget)
    let ms: Vec<usize> = if (cc.every && total <= 3000) || total <= 300 { (0..=total).collect() } else { (0..=total).step_by((total / if cc.every { 600 } else { 200 }).max(1)).chain([0usize, 1, total.saturating_sub(1), total]).collect() };
    for m in ms {
        for kind in [std::io::ErrorKind::BrokenPipe, std::io::ErrorKind::ConnectionReset, std::io::ErrorKind::ConnectionAborted, std::io::ErrorKind::ConnectionRefused] {
            runs += 1;
            let obs = run_mem(&case, &MemOpts { write_fault: Some((m, kind)), ..Default::default() });
            let label = format!("write-{:?}", kind).to_lowercase();
            if let Some(p) = obs.panics.first() {
                return fail(format!("C15/{}/panic/{}", label, vcore::panics::signature_of(p)), format!("client gone after {} response bytes: {} at {}", m, p.message, p.location));
            }
            if let Err((kk, d)) = comp_respond_ok(&obs) {
                return fail(format!("C15/{}/{}", label, kk), format!("client gone after {} of {} response bytes: {}", m, total, d));
            }
            if let Some(s) = &obs.stall {
                return fail(format!("C15/{}/stall", label), s.clone());
            }
        }
    }
    let mut g = Good::nontrivial();
    g.extra_evals = runs;
    g.classes.push(format!("response-bytes<={}", if total <= 256 { 256 } else if total <= 4096 { 4096 } else { 1 << 20 }));
    Verdict::Pass(g)
}

// ------------------------------------------------------------------------------------------

pub fn parts<'a>(cli: &'a Cli) -> Option<(Vec<Part<'a>>, &'static str, Vec<&'static str>)> {
    let mut parts: Vec<Part> = vec![];
    let max_len = if cli.thorough { 200_000 } else { 40_000 };
    let a = vec![
        "in-memory engine: the real ClientConnection / Request / Response code over an in-memory duplex (hook H2/H3), one request handled at a time on one thread; a server read with no input and a client that waits for output not yet produced is an exact stall",
        "inputs follow the grammar of DESIGN.md 3.1",
    ];
    match cli.property.as_str() {
        "C02" => {
            parts.push(make_part("mem", "CONV/mem", cli.cases(6_000, 400_000), || gen::c02_strategy(mem()), |_| (), |_, c| {
                // every third case is preceded, on the same thread, by a connection whose client goes
                // away in the middle of a head line: nothing of it may show in the next connection
                let n = render(&c.conv).bytes.len();
                if n % 3 == 0 && n > 8 {
                    let mut first = c.clone();
                    first.script = vec![Step::Send { from: 0, to: n }];
                    let _ = run_mem(&first, &MemOpts { cut_at: Some((2 + n % 5, if n % 2 == 0 { CutKind::Close } else { CutKind::Reset })), ..Default::default() });
                }
                let (exp, obs) = run(c);
                c02_oracle(c, &exp, &obs, "00000000")
            }));
            Some((parts, "part mem: the C02 cases over the in-memory connection (remote_addr must be absent); every third case follows, on the same thread, a connection that ended in the middle of its request line", a))
        }
        "C04" => {
            parts.push(make_part("mem-conn", "CONV/mem", cli.cases(10_000, 500_000), || gen::c04_conn_strategy(mem()), |_| (), |_, c| {
                let (exp, obs) = run(c);
                c04_conn_oracle(c, &exp, &obs)
            }));
            Some((parts, "part mem-conn: 1-3 pipelined GET/HEAD requests (HTTP/1.0 and 1.1, optional TE header) answered with respond(): status x body length (boundary set) x declared/undeclared x chunk threshold; oracle: the client's independent parser sees exactly one well-formed self-delimiting message per request with exactly the body (none for HEAD/204/304), each response followed directly by the next", a))
        }
        "C03" => {
            parts.push(make_part("mem", "CONV/mem", cli.cases(20_000, 1_000_000), move || gen::c03_strategy(max_len, mem()), |_| (), |_, c| {
                let (exp, obs) = run(c);
                c03_oracle(c, &exp, &obs, "00000000")
            }));
            parts.push(make_part("mem-transient-errors", "CONV/mem", cli.cases(6_000, 300_000), move || gen::c03_strategy(max_len, mem()), |_| (), |_, c| {
                let (exp, obs) = run_intr(c);
                c03_oracle(c, &exp, &obs, "00000000")
            }));
            Some((parts, "part mem: the C03 cases over the in-memory connection (one client segment per read); part mem-transient-errors: the same with every 2nd / 3rd / 5th read and write of the transport reporting Interrupted (the handler programs retry as read_exact does) and writes taking at most 1 / 13 / 700 bytes", a))
        }
        "C06" => {
            parts.push(make_part("mem", "CONV/mem", cli.cases(20_000, 1_000_000), || gen::c06_strategy(mem(), false), |_| (), |_, c| {
                let (exp, obs) = run(c);
                c06_oracle(c, &exp, &obs)
            }));
            parts.push(make_part("mem-withheld-body", "CONV/mem", cli.cases(20_000, 1_000_000), || gen::c06_withhold_strategy(mem()), |_| (), |_, c| {
                let (exp, obs) = run(c);
                c06_oracle(c, &exp, &obs)
            }));
            parts.push(make_part("mem-failing-respond", "CONV/mem", cli.cases(5_000, 200_000), || gen::c06_failing_strategy(mem()), |_| (), |_, c| {
                // every delivered request is handled (the model stops at the failing one)
                let obs = run_mem(c, &MemOpts::default());
                c06_failing_oracle(c, &expect(c), &obs)
            }));
            Some((parts, "part mem-failing-respond: respond() with a body source that errors or panics after k of the declared bytes (GET and HEAD), followed by 0-2 further requests: never more response heads on the wire than requests delivered (no automatic 500 after a response that had begun); part mem: the C06 cases (without panicking handlers) over the in-memory connection; part mem-withheld-body: a request with a streamed body (Content-Length > 1024, chunked, or Expect: 100-continue) that the application drops / answers without reading, while the client withholds the rest of the body until the answer has arrived: the answer must not wait for the body (exact stall detection), followers are served afterwards", a))
        }
        "C09" => {
            parts.push(make_part("mem", "CONV/mem", cli.cases(20_000, 1_000_000), move || gen::c09_strategy(max_len, mem()), |_| (), |_, c| {
                let (exp, obs) = run(c);
                c09_oracle(c, &exp, &obs, "00000000")
            }));
            parts.push(make_part("mem-transient-errors", "CONV/mem", cli.cases(6_000, 300_000), move || gen::c09_strategy(max_len, mem()), |_| (), |_, c| {
                let (exp, obs) = run_intr(c);
                c09_oracle(c, &exp, &obs, "00000000")
            }));
            Some((parts, "part mem: the C09 cases over the in-memory connection; a server that waits for input while the client waits for the responses is an exact stall; part mem-transient-errors: the same with every 2nd / 3rd / 5th read and write of the transport reporting Interrupted and writes taking at most 1 / 13 / 700 bytes", a))
        }
        "C10" => {
            parts.push(make_part("mem", "CONV/mem", cli.cases(20_000, 1_000_000), || gen::c10_strategy(mem()), |_| (), |_, c| {
                let (exp, obs) = run(c);
                c10_oracle(c, &exp, &obs)
            }));
            Some((parts, "part mem: the C10 cases over the in-memory connection: 'promptly' is exact (when the server has consumed everything and asks for more input, the definitive outcome must already be in the client's buffer)", a))
        }
        "C12" => {
            parts.push(make_part("mem", "CONV/mem", cli.cases(20_000, 1_000_000), || gen::c12_strategy(mem()), |_| (), |_, c| {
                let (exp, obs) = run(c);
                c12_oracle(c, &exp, &obs)
            }));
            parts.push(make_part("mem-long-lived", "CONV/mem", cli.cases(60, 3_000), || gen::c12_long_strategy(mem()), |_| (), |_, c| {
                let (exp, obs) = run(c);
                c12_oracle(c, &exp, &obs)
            }));
            Some((parts, "part mem: the C12 cases over the in-memory connection: 'the server closes its sending side' is observed exactly (shutdown(Write) recorded), no timing involved; part mem-long-lived: 30-300 requests on one persistent connection (HTTP/1.1, or HTTP/1.0 with keep-alive; with or without a 300-900 byte header each), sent at once, at once with the client waiting for every answer, or one at a time: every one is served, then the half-close is honoured", a))
        }
        "C16" => {
            parts.push(make_part("mem", "CONV/mem", cli.cases(20_000, 1_000_000), || gen::c16_strategy(mem()), |_| (), |_, c| {
                let (exp, obs) = run(c);
                c16_oracle(c, &exp, &obs)
            }));
            Some((parts, "part mem: the C16 cases over the in-memory connection", a))
        }
        "C18" => {
            parts.push(make_part("mem", "CONV/mem", cli.cases(20_000, 1_000_000), || gen::c18_strategy(mem()), |_| (), |_, c| {
                let (exp, obs) = run(c);
                c18_oracle(c, &exp, &obs)
            }));
            Some((parts, "part mem: the C18 cases over the in-memory connection: a client that never gets its 100 never sends the body, which the engine reports as an exact stall", a))
        }
        "C13" => {
            let (n_multi, corpus) = if cli.thorough { (200usize, 5_000u64) } else { (20usize, 160u64) };
            let max_stream = if cli.thorough { 60_000 } else { 4_000 };
            parts.push(make_part(
                "mem-splits",
                "CONV/mem",
                cli.cases(corpus, corpus),
                move || {
                    (
                        corpus_strategy(max_stream, true),
                        proptest::collection::vec(proptest::collection::vec(any::<u16>(), 2..12), n_multi),
                        proptest::bool::weighted(0.5),
                        prop_oneof![3 => Just(vec![]), 2 => proptest::collection::vec((any::<u16>(), prop_oneof![3 => Just(0u8), 1 => 1u8..6], any::<u8>()), 1..4)],
                    )
                        .prop_map(|(case, multi, all_points, edits)| SegCase { case, multi, all_points, edits })
                },
                |_| (),
                |_, c| c13_test(c),
            ));
            parts.push(make_part("mem-history", "CONV/mem", cli.cases(4_000, 200_000), move || c13_history_strategy(max_stream.min(6_000)), |_| (), |_, c| c13_history_test(c)));
            Some((
                parts,
                "part mem-history: a corpus conversation served on a thread that has just served 1-3 other connections (corpus conversations, optionally edited, whose client vanished after a generated prefix: half-close, close, reset, read timeout) is compared with the same conversation served on a thread that has never served anything: what the application and the client observe is identical (pool workers are reused: nothing may be carried from one connection to the next); non-trivial: the earlier client vanished inside a line; part mem-splits: corpus: conversations drawn from the generators of C02/C03/C06/C09/C10/C12/C16/C18 (all framing kinds, all error classes); for each: baseline with the script's own segments, then every single split point (a dense sample for streams > 600 bytes unless all_points), one byte per segment, and 20 (quick) / 200 (thorough) random multi-way splits, each read returning exactly one segment; oracle (metamorphic): delivered requests (heads, bodies, body_length, respond results) and the response byte stream with Date values blanked are identical to the baseline; evaluations counts every run; non-trivial: conversations with a split inside a CRLF, a chunk-size line, a body, or at a multiple of 1024",
                a,
            ))
        }
        "C15" => {
            let corpus = cli.cases(100, 8_000);
            let max_stream = if cli.thorough { 20_000 } else { 3_000 };
            parts.push(make_part("mem-request-cuts", "CONV/mem", corpus, move || (corpus_strategy(max_stream, false), proptest::bool::weighted(0.6)).prop_map(|(case, every)| CutCase { case, every }), |_| (), |_, c| c15_request_side(c)));
            parts.push(make_part("mem-response-cuts", "CONV/mem", corpus / 2, move || (corpus_strategy(max_stream, false), proptest::bool::weighted(0.6)).prop_map(|(case, every)| CutCase { case, every }), |_| (), |_, c| c15_response_side(c)));
            Some((
                parts,
                "part mem-request-cuts: for each corpus conversation every prefix length k of the client's byte stream (region boundaries +-1 and a sample for long streams) x {half-close, close, read error ConnectionReset / ConnectionAborted / BrokenPipe / TimedOut at offset k}: delivered ids are a subset of the requests complete in the prefix (= for half-close, and all answered, then end-of-stream), respond() = Ok, no stall, no panic; part mem-response-cuts: every response byte offset m x write error {BrokenPipe, ConnectionReset, ConnectionAborted, ConnectionRefused} after m bytes: respond() = Ok, no panic; evaluations counts every run; non-trivial: a cut strictly inside a message",
                a,
            ))
        }
        _ => None,
    }
}
