fn main() {}
