//! Harness binary for the `hook-std` flavour: tiny-http with the verification hooks on std
//! primitives.  CONV/mem: the real per-connection code over an in-memory connection with exact
//! segmentation, exact stall detection and injected faults.

#[path = "../../vreal/src/interp.rs"]
mod interp;
mod memrun;
mod props_mem;

use vcore::cli::{drive, Cli};

fn main() {
    let cli = Cli::parse("vhook");
    vcore::panics::install();
    // a sequential in-memory case never blocks on the client; if the library blocks on itself the
    // worker hangs: report that as inconclusive (the scheduled engine decides stalls exactly)
    std::thread::spawn(|| {
        let limit = std::env::var("VERIF_HOOK_WATCHDOG_S").ok().and_then(|s| s.parse().ok()).unwrap_or(90u64);
        let mut last = vcore::runner::PROGRESS.load(std::sync::atomic::Ordering::Relaxed);
        let mut idle = 0u64;
        loop {
            std::thread::sleep(std::time::Duration::from_secs(1));
            let now = vcore::runner::PROGRESS.load(std::sync::atomic::Ordering::Relaxed);
            if now == last {
                idle += 1;
            } else {
                idle = 0;
                last = now;
            }
            if idle >= limit {
                eprintln!("vhook: no case finished for {} s: a case blocked inside the library (a connection that blocks on itself is decided by the scheduled engine)", limit);
                println!("INCONCLUSIVE: vhook watchdog, no progress for {} s", limit);
                std::process::exit(2);
            }
        }
    });
    let found = props_mem::parts(&cli);
    match found {
        Some((p, rule, assumptions)) => drive(&cli, p, rule, &assumptions),
        None => {
            eprintln!("vhook: no parts for property {}", cli.property);
            std::process::exit(3)
        }
    }
}
